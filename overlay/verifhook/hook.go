// Package verifhook exists only in verification builds: it is added to the tree under
// test through `go build -overlay` together with generated copies of the library
// sources that call Yield at every function entry and loop head. It is never written
// into the repository.
package verifhook

// Hook, when non-nil, is called at every generated yield point with the site number.
var Hook func(site int)

// BlockedHook, when non-nil, is called when a channel send could not proceed; it
// returns true if the caller should retry (a simulator is attached and has run
// somebody else), false if it should fall back to a real blocking send.
var BlockedHook func(site int) bool

func Yield(site int) {
	if h := Hook; h != nil {
		h(site)
	}
}

func Blocked(site int) bool {
	if h := BlockedHook; h != nil {
		return h(site)
	}
	return false
}
