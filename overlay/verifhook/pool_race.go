//go:build race

package verifhook

import (
	"runtime"
	"unsafe"
)

func syncOff()                          { runtime.RaceDisable() }
func syncOn()                           { runtime.RaceEnable() }
func raceReleaseMerge(p unsafe.Pointer) { runtime.RaceReleaseMerge(p) }
func raceAcquire(p unsafe.Pointer)      { runtime.RaceAcquire(p) }
