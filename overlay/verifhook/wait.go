package verifhook

import (
	"sync"
	"sync/atomic"
	"time"
)

// Recv stands in for a receive expression `<-c` outside a select statement: the receive is
// a preemption point, and a task that would block hands the baton on instead of blocking
// for real (which would stall every task of the simulation). Without a simulator, or when
// the simulator says that nobody else can run, it is a plain blocking receive.
func Recv[T any](c <-chan T, site int) T {
	Yield(site)
	for {
		select {
		case v := <-c:
			return v
		default:
			if !Blocked(site) {
				return <-c
			}
		}
	}
}

// Recv2 is Recv for the two-value form `v, ok := <-c`.
func Recv2[T any](c <-chan T, site int) (T, bool) {
	Yield(site)
	for {
		select {
		case v, ok := <-c:
			return v, ok
		default:
			if !Blocked(site) {
				v, ok := <-c
				return v, ok
			}
		}
	}
}

// Once stands in for sync.Once (the instrumenter rewrites the type name). A caller that
// arrives while another task is inside f waits by handing the baton on; sync.Once would
// block it for real, with the task that has to finish f parked for ever. Semantics are
// those of sync.Once: f runs once, Do returns after f has returned (also for callers that
// did not run it), f's effects happen before every return of Do, a panic in f still counts.
type Once struct {
	state uint32 // 0 not started, 1 running, 2 done
}

func (o *Once) Do(f func()) {
	for {
		switch {
		case atomic.LoadUint32(&o.state) == 2:
			return
		case atomic.CompareAndSwapUint32(&o.state, 0, 1):
			defer atomic.StoreUint32(&o.state, 2)
			f()
			return
		}
		if !Blocked(-1) {
			time.Sleep(20 * time.Microsecond)
		}
	}
}

// Wait is called from the default clause the instrumenter adds to a select statement that
// has none: nothing was ready. The task hands the baton on (or, without a simulator, sleeps
// briefly) and the select is tried again.
func Wait(site int) {
	if !Blocked(site) {
		time.Sleep(20 * time.Microsecond)
	}
}

// WaitGroup stands in for sync.WaitGroup: Wait yields instead of blocking for real.
type WaitGroup struct {
	n int64
}

func (wg *WaitGroup) Add(delta int) {
	if atomic.AddInt64(&wg.n, int64(delta)) < 0 {
		panic("sync: negative WaitGroup counter")
	}
}

func (wg *WaitGroup) Done() { wg.Add(-1) }

func (wg *WaitGroup) Wait() {
	Yield(-1)
	for atomic.LoadInt64(&wg.n) > 0 {
		Wait(-1)
	}
}

// Cond stands in for sync.Cond: Wait yields instead of blocking for real. Signal wakes exactly
// one waiter (the one waiting longest), Broadcast all current waiters, as the original does.
type Cond struct {
	L sync.Locker

	mu     sync.Mutex
	next   uint64 // ticket of the next waiter
	served uint64 // waiters with a ticket below this value have been woken
}

func NewCond(l sync.Locker) *Cond { return &Cond{L: l} }

func (c *Cond) Wait() {
	c.mu.Lock()
	t := c.next
	c.next++
	c.mu.Unlock()
	c.L.Unlock()
	for {
		c.mu.Lock()
		woken := c.served > t
		c.mu.Unlock()
		if woken {
			break
		}
		Wait(-1)
	}
	if tl, ok := c.L.(interface{ TryLock() bool }); ok {
		for !tl.TryLock() {
			Wait(-1)
		}
	} else {
		c.L.Lock()
	}
}

func (c *Cond) Signal() {
	c.mu.Lock()
	if c.served < c.next {
		c.served++
	}
	c.mu.Unlock()
}

func (c *Cond) Broadcast() {
	c.mu.Lock()
	c.served = c.next
	c.mu.Unlock()
}
