package verifhook

import (
	"sync"
	"unsafe"
)

// Pool stands in for sync.Pool in the tree under test (the instrumenter rewrites the type
// name). sync.Pool is a source of nondeterminism the simulator does not own: which item Get
// returns depends on the P the goroutine happens to run on, on garbage collections, and -
// in race builds - on a random generator that drops a quarter of the Puts. This one is a
// plain LIFO stack: Get returns the most recently Put item if there is one, else New().
// Like the original it synchronises a Put with the Get that receives the same item (and
// nothing else), so the race detector still sees every conflict between two holders of one
// item and between a holder and a user who kept a reference after Put.
type Pool struct {
	New func() interface{}

	mu    sync.Mutex
	n     int
	items [64]interface{}
}

var poolRaceHash [128]uint64

func poolAddr(x interface{}) unsafe.Pointer {
	ptr := uintptr((*[2]unsafe.Pointer)(unsafe.Pointer(&x))[1])
	h := uint32((uint64(uint32(ptr)) * 0x85ebca6b) >> 16)
	return unsafe.Pointer(&poolRaceHash[h%uint32(len(poolRaceHash))])
}

// Put adds x to the pool.
//
//go:norace
func (p *Pool) Put(x interface{}) {
	if x == nil {
		return
	}
	raceReleaseMerge(poolAddr(x))
	syncOff()
	p.mu.Lock()
	if p.n < len(p.items) {
		p.items[p.n] = x
		p.n++
	}
	p.mu.Unlock()
	syncOn()
}

// Get removes the most recently added item from the pool and returns it, or New() if the
// pool is empty.
//
//go:norace
func (p *Pool) Get() interface{} {
	var x interface{}
	syncOff()
	p.mu.Lock()
	if p.n > 0 {
		p.n--
		x = p.items[p.n]
		p.items[p.n] = nil
	}
	p.mu.Unlock()
	syncOn()
	if x != nil {
		raceAcquire(poolAddr(x))
		return x
	}
	if p.New != nil {
		return p.New()
	}
	return nil
}
