//go:build !race

package verifhook

import "unsafe"

func syncOff()                          {}
func syncOn()                           {}
func raceReleaseMerge(p unsafe.Pointer) {}
func raceAcquire(p unsafe.Pointer)      {}
