// Package model holds the reference models and oracles of the simulator. Nothing here
// calls into mamba.
package model

import (
	"fmt"
	"sort"
)

// G is a small simple graph (n <= 32; canonical codes only for n <= 11) as adjacency bit masks.
type G struct {
	N   int
	Adj []uint32
}

func NewG(n int) *G { return &G{N: n, Adj: make([]uint32, n)} }

func (g *G) Add(i, j int) {
	if i == j {
		return
	}
	g.Adj[i] |= 1 << uint(j)
	g.Adj[j] |= 1 << uint(i)
}
func (g *G) Has(i, j int) bool { return g.Adj[i]>>uint(j)&1 == 1 }
func (g *G) Copy() *G          { return &G{N: g.N, Adj: append([]uint32(nil), g.Adj...)} }
func (g *G) M() int {
	m := 0
	for _, a := range g.Adj {
		m += popcount(a)
	}
	return m / 2
}

func popcount(x uint32) int {
	c := 0
	for x != 0 {
		x &= x - 1
		c++
	}
	return c
}

// FromEdgeFunc builds a G by asking has(i, j) for every pair i < j.
func FromEdgeFunc(n int, has func(i, j int) bool) *G {
	g := NewG(n)
	for j := 0; j < n; j++ {
		for i := 0; i < j; i++ {
			if has(i, j) {
				g.Add(i, j)
			}
		}
	}
	return g
}

// Code is a complete isomorphism invariant: two graphs are isomorphic iff their Codes
// are equal. It is the minimum, over all vertex orders that respect the cells of a
// label-independent vertex invariant, of the adjacency bit string read row by row.
type Code struct {
	N    int
	Bits uint64
}

type canon struct {
	g        *G
	n        int
	cellOf   []int // cell index per position
	cells    [][]int
	best     uint64
	haveBest bool
	perm     []int
	used     uint32
	bestPerm []int
}

func invariantKey(g *G, v int) []int {
	k := []int{popcount(g.Adj[v])}
	var nd []int
	for u := 0; u < g.N; u++ {
		if g.Has(u, v) {
			nd = append(nd, popcount(g.Adj[u]))
		}
	}
	sort.Ints(nd)
	return append(k, nd...)
}

func cmpKeys(a, b []int) int {
	for i := 0; i < len(a) && i < len(b); i++ {
		if a[i] != b[i] {
			if a[i] < b[i] {
				return -1
			}
			return 1
		}
	}
	return len(a) - len(b)
}

// Canon returns the code of g and one vertex order (position -> vertex) realising it.
func Canon(g *G) (Code, []int) {
	n := g.N
	if n == 0 {
		return Code{}, nil
	}
	keys := make([][]int, n)
	order := make([]int, n)
	for v := 0; v < n; v++ {
		keys[v] = invariantKey(g, v)
		order[v] = v
	}
	sort.SliceStable(order, func(a, b int) bool { return cmpKeys(keys[order[a]], keys[order[b]]) < 0 })
	c := &canon{g: g, n: n, perm: make([]int, n), bestPerm: make([]int, n)}
	c.cellOf = make([]int, n)
	for p := 0; p < n; p++ {
		if p == 0 || cmpKeys(keys[order[p]], keys[order[p-1]]) != 0 {
			c.cells = append(c.cells, nil)
		}
		c.cells[len(c.cells)-1] = append(c.cells[len(c.cells)-1], order[p])
		c.cellOf[p] = len(c.cells) - 1
	}
	c.search(0, 0, 0)
	return Code{N: n, Bits: c.best}, append([]int(nil), c.bestPerm...)
}

// search places a vertex at position p. code holds the rows of positions < p;
// state: 0 = prefix equal to best's prefix so far, -1 = already smaller.
func (c *canon) search(p int, code uint64, state int) {
	if p == c.n {
		if !c.haveBest || code < c.best {
			c.best = code
			c.haveBest = true
			copy(c.bestPerm, c.perm)
		}
		return
	}
	// number of bits after row p: rows p+1..n-1 have p+1..n-1 bits
	rest := uint(0)
	for q := p + 1; q < c.n; q++ {
		rest += uint(q)
	}
	for _, v := range c.cells[c.cellOf[p]] {
		if c.used>>uint(v)&1 == 1 {
			continue
		}
		row := uint64(0)
		for q := 0; q < p; q++ {
			row <<= 1
			if c.g.Has(v, c.perm[q]) {
				row |= 1
			}
		}
		nc := code<<uint(p) | row
		st := state
		if c.haveBest && st == 0 {
			bp := c.best >> rest
			if nc > bp {
				continue
			}
			if nc < bp {
				st = -1
			}
		}
		c.perm[p] = v
		c.used |= 1 << uint(v)
		c.search(p+1, nc, st)
		c.used &^= 1 << uint(v)
	}
}

// Automorphisms returns every permutation p (vertex -> vertex) with
// Has(i,j) == Has(p[i],p[j]) that additionally preserves class[] (nil: no classes).
// Intended for n <= 8.
func Automorphisms(g *G, class []int) [][]int { return AutomorphismsLimit(g, class, 1<<30) }

// AutomorphismsLimit is Automorphisms that gives up (returns nil) once more than limit
// automorphisms have been found.
func AutomorphismsLimit(g *G, class []int, limit int) [][]int {
	n := g.N
	var out [][]int
	tooMany := false
	nodes := 0
	p := make([]int, n)
	used := make([]bool, n)
	deg := make([]int, n)
	for v := range deg {
		deg[v] = popcount(g.Adj[v])
	}
	var rec func(i int)
	rec = func(i int) {
		if tooMany {
			return
		}
		if nodes++; nodes > 3000000 { // the backtracking itself is too expensive for this graph: give up
			tooMany = true
			return
		}
		if i == n {
			out = append(out, append([]int(nil), p...))
			if len(out) > limit {
				tooMany = true
			}
			return
		}
		for v := 0; v < n; v++ {
			if used[v] || deg[v] != deg[i] || (class != nil && class[v] != class[i]) {
				continue
			}
			ok := true
			for j := 0; j < i; j++ {
				if g.Has(i, j) != g.Has(v, p[j]) {
					ok = false
					break
				}
			}
			if !ok {
				continue
			}
			p[i] = v
			used[v] = true
			rec(i + 1)
			used[v] = false
		}
	}
	rec(0)
	if tooMany {
		return nil
	}
	return out
}

// Pred is a hereditary (induced-subgraph-closed) graph property.
type Pred struct {
	Name string
	F    func(g *G) bool
}

func TriangleFree(g *G) bool {
	for i := 0; i < g.N; i++ {
		for j := 0; j < i; j++ {
			if g.Has(i, j) && g.Adj[i]&g.Adj[j] != 0 {
				return false
			}
		}
	}
	return true
}

func K4Free(g *G) bool {
	for i := 0; i < g.N; i++ {
		for j := 0; j < i; j++ {
			if !g.Has(i, j) {
				continue
			}
			c := g.Adj[i] & g.Adj[j]
			for k := 0; k < g.N; k++ {
				if c>>uint(k)&1 == 1 && c&g.Adj[k] != 0 {
					return false
				}
			}
		}
	}
	return true
}

func ClawFree(g *G) bool {
	for v := 0; v < g.N; v++ {
		nb := g.Adj[v]
		for a := 0; a < g.N; a++ {
			if nb>>uint(a)&1 == 0 {
				continue
			}
			for b := 0; b < a; b++ {
				if nb>>uint(b)&1 == 0 || g.Has(a, b) {
					continue
				}
				for c := 0; c < b; c++ {
					if nb>>uint(c)&1 == 1 && !g.Has(a, c) && !g.Has(b, c) {
						return false
					}
				}
			}
		}
	}
	return true
}

func MaxDegAtMost(d int) func(g *G) bool {
	return func(g *G) bool {
		for _, a := range g.Adj {
			if popcount(a) > d {
				return false
			}
		}
		return true
	}
}

func EdgesAtMost(e int) func(g *G) bool { return func(g *G) bool { return g.M() <= e } }

func Bipartite(g *G) bool {
	col := make([]int, g.N)
	for s := 0; s < g.N; s++ {
		if col[s] != 0 {
			continue
		}
		col[s] = 1
		st := []int{s}
		for len(st) > 0 {
			v := st[len(st)-1]
			st = st[:len(st)-1]
			for u := 0; u < g.N; u++ {
				if !g.Has(u, v) {
					continue
				}
				if col[u] == 0 {
					col[u] = -col[v]
					st = append(st, u)
				} else if col[u] == col[v] {
					return false
				}
			}
		}
	}
	return true
}

func Forest(g *G) bool {
	// acyclic <=> m = n - components
	comp := make([]int, g.N)
	for i := range comp {
		comp[i] = i
	}
	var find func(x int) int
	find = func(x int) int {
		for comp[x] != x {
			x = comp[x]
		}
		return x
	}
	for i := 0; i < g.N; i++ {
		for j := 0; j < i; j++ {
			if g.Has(i, j) {
				a, b := find(i), find(j)
				if a == b {
					return false
				}
				comp[a] = b
			}
		}
	}
	return true
}

func Preds() []Pred {
	return []Pred{
		{"triangle-free", TriangleFree},
		{"K4-free", K4Free},
		{"claw-free", ClawFree},
		{"max-degree<=2", MaxDegAtMost(2)},
		{"max-degree<=3", MaxDegAtMost(3)},
		{"edges<=5", EdgesAtMost(5)},
		{"bipartite", Bipartite},
		{"forest", Forest},
	}
}

// Classes returns the codes of all isomorphism classes of graphs on n vertices that
// satisfy the hereditary predicate keep (nil: all graphs), generated independently of
// mamba: every class of order k-1 (satisfying keep) extended by every neighbourhood.
func Classes(n int, keep func(*G) bool) map[Code]bool {
	type rep struct{ g *G }
	cur := []*G{NewG(0)}
	if keep != nil && !keep(cur[0]) {
		return map[Code]bool{}
	}
	if n == 0 {
		return map[Code]bool{{}: true}
	}
	var set map[Code]bool
	for k := 1; k <= n; k++ {
		set = map[Code]bool{}
		var next []*G
		for _, h := range cur {
			for mask := 0; mask < 1<<uint(k-1); mask++ {
				g := &G{N: k, Adj: make([]uint32, k)}
				copy(g.Adj, h.Adj)
				for u := 0; u < k-1; u++ {
					if mask>>uint(u)&1 == 1 {
						g.Add(u, k-1)
					}
				}
				if keep != nil && !keep(g) {
					continue
				}
				c, _ := Canon(g)
				if !set[c] {
					set[c] = true
					next = append(next, g)
				}
			}
		}
		cur = next
	}
	return set
}

// A000088: number of graphs on n unlabelled nodes.
var A000088 = []int{1, 1, 2, 4, 11, 34, 156, 1044, 12346, 274668, 12005168}

// InducedFree returns the hereditary predicate "contains no induced copy of h".
func InducedFree(h *G) func(g *G) bool {
	return func(g *G) bool {
		k := h.N
		if k > g.N {
			return true
		}
		img := make([]int, k)
		used := make([]bool, g.N)
		var rec func(i int) bool
		rec = func(i int) bool { // true if an induced copy exists
			if i == k {
				return true
			}
			for v := 0; v < g.N; v++ {
				if used[v] {
					continue
				}
				ok := true
				for j := 0; j < i; j++ {
					if h.Has(i, j) != g.Has(v, img[j]) {
						ok = false
						break
					}
				}
				if !ok {
					continue
				}
				img[i] = v
				used[v] = true
				if rec(i + 1) {
					used[v] = false
					return true
				}
				used[v] = false
			}
			return false
		}
		return !rec(0)
	}
}

// ---- graphs too wide for Code (n >= 12): signature buckets + pairwise isomorphism test ----------

func wideKey(g *G, v int) string {
	n := g.N
	k := invariantKey(g, v)
	// triangles through v
	tri := 0
	for u := 0; u < n; u++ {
		if g.Has(u, v) {
			tri += popcount(g.Adj[u] & g.Adj[v])
		}
	}
	k = append(k, -1, tri/2, -1)
	// sizes of the BFS layers around v
	seen := uint32(1) << uint(v)
	layer := seen
	for layer != 0 {
		var next uint32
		for u := 0; u < n; u++ {
			if layer>>uint(u)&1 == 1 {
				next |= g.Adj[u]
			}
		}
		next &^= seen
		seen |= next
		layer = next
		k = append(k, popcount(layer))
	}
	return fmt.Sprint(k)
}

// WideSig is an isomorphism invariant (not complete): the sorted multiset of per-vertex keys.
func WideSig(g *G) string {
	ks := make([]string, g.N)
	for v := range ks {
		ks[v] = wideKey(g, v)
	}
	sort.Strings(ks)
	return fmt.Sprint(g.N, g.M(), ks)
}

// Isomorphic decides isomorphism of a and b by backtracking over key-respecting bijections.
func Isomorphic(a, b *G) bool {
	n := a.N
	if n != b.N || a.M() != b.M() {
		return false
	}
	ka, kb := make([]string, n), make([]string, n)
	for v := 0; v < n; v++ {
		ka[v], kb[v] = wideKey(a, v), wideKey(b, v)
	}
	// order the vertices of a so that each (after the first of its component) has an earlier neighbour
	order := make([]int, 0, n)
	placed := uint32(0)
	for len(order) < n {
		best := -1
		for v := 0; v < n; v++ {
			if placed>>uint(v)&1 == 0 && a.Adj[v]&placed != 0 {
				best = v
				break
			}
		}
		if best < 0 {
			for v := 0; v < n; v++ {
				if placed>>uint(v)&1 == 0 {
					best = v
					break
				}
			}
		}
		order = append(order, best)
		placed |= 1 << uint(best)
	}
	img := make([]int, n)
	used := uint32(0)
	var rec func(i int) bool
	rec = func(i int) bool {
		if i == n {
			return true
		}
		v := order[i]
		for c := 0; c < n; c++ {
			if used>>uint(c)&1 == 1 || ka[v] != kb[c] {
				continue
			}
			ok := true
			for j := 0; j < i && ok; j++ {
				u := order[j]
				ok = a.Has(u, v) == b.Has(img[u], c)
			}
			if !ok {
				continue
			}
			used |= 1 << uint(c)
			img[v] = c
			if rec(i + 1) {
				return true
			}
			used &^= 1 << uint(c)
		}
		return false
	}
	return rec(0)
}
