// Engine sortints-ops (C17): seeded histories over a pool of long-lived SortedInts
// values (with spare capacity) against a map model; ints.Sort against sort.Ints.
package main

import (
	"fmt"
	"math"
	"math/big"
	"sort"
	"time"

	"github.com/Tom-Johnston/mamba/ints"
	"github.com/Tom-Johnston/mamba/sortints"
	"mambasim/driver"
	"mambasim/gutil"
)

const sentinel = -987654321

type val struct {
	s   sortints.SortedInts // what the library sees; spare capacity is filled with sentinel
	m   []int               // model: sorted, distinct
	raw bool                // s is the very slice the library returned (no sentinel-filled spare capacity)
}

func modelOf(xs []int) []int {
	set := map[int]bool{}
	for _, x := range xs {
		set[x] = true
	}
	out := make([]int, 0, len(set))
	for x := range set {
		out = append(out, x)
	}
	sort.Ints(out)
	return out
}

func eq(a, b []int) bool {
	if len(a) != len(b) {
		return false
	}
	for i := range a {
		if a[i] != b[i] {
			return false
		}
	}
	return true
}

// withCap copies xs into a fresh slice with extra spare capacity filled with sentinels.
func withCap(xs []int, extra int) sortints.SortedInts {
	b := make([]int, len(xs)+extra)
	copy(b, xs)
	for i := len(xs); i < len(b); i++ {
		b[i] = sentinel
	}
	return sortints.SortedInts(b[:len(xs)])
}

func spareIntact(s sortints.SortedInts) bool {
	full := s[:cap(s)]
	for i := len(s); i < len(full); i++ {
		if full[i] != sentinel {
			return false
		}
	}
	return true
}

var extremes = []int{-1 << 63, -1<<63 + 1, -1 << 62, -1<<31 - 1, -1, 0, 1, 1 << 31, 1 << 62, 1<<63 - 2, 1<<63 - 1}

type engine struct {
	extreme bool // values come from the list of extreme ints
	r       *driver.Run
	pool    []*val
	lo      int
	hi      int
	keepRaw bool // results enter the pool as returned (aliasing with arguments shows after a later in-place mutation)
}

// keep stores a result: as returned by the library in keepRaw runs, as a deep copy otherwise.
func (e *engine) keep(got sortints.SortedInts, want []int) {
	if !e.keepRaw {
		e.put(want)
		return
	}
	v := &val{s: got, m: append([]int(nil), want...), raw: true}
	if len(e.pool) < 6 {
		e.pool = append(e.pool, v)
		return
	}
	e.pool[e.r.T.Draw(len(e.pool))] = v
}

// rewrap gives a mutated receiver fresh sentinel-filled spare capacity (deep-copy runs only).
func (e *engine) rewrap(a *val) {
	if e.keepRaw {
		a.raw = true
		return
	}
	a.s = withCap(a.m, e.extra())
}

func (e *engine) drawInt() int {
	if e.extreme {
		return extremes[e.r.T.Draw(len(extremes))]
	}
	return e.lo + e.r.T.Draw(e.hi-e.lo+1)
}

func (e *engine) drawList(max int) []int {
	k := e.r.T.Draw(max + 1)
	xs := make([]int, k)
	for i := range xs {
		if i > 0 && e.r.T.Chance(1, 5) {
			xs[i] = xs[e.r.T.Draw(i)] // a repeat
		} else {
			xs[i] = e.drawInt()
		}
	}
	return xs
}

func (e *engine) extra() int { return []int{0, 1, 2, 7, 40}[e.r.T.Draw(5)] }

func strictlyIncreasing(a []int) bool {
	for i := 1; i < len(a); i++ {
		if a[i-1] >= a[i] {
			return false
		}
	}
	return true
}

const budget = 2_000_000

// checkResult: a value-returning operation.
func (e *engine) checkResult(what string, got sortints.SortedInts, want []int) {
	if !strictlyIncreasing(got) {
		e.r.Fail("not-strictly-increasing", opName(what), "%s = %v is not strictly increasing", what, []int(got))
	}
	if !eq(got, want) {
		e.r.Fail("wrong-result", opName(what), "%s = %v, want %v", what, []int(got), want)
	}
	e.r.ObsInts(got)
}

func opName(what string) string {
	for i := 0; i < len(what); i++ {
		if what[i] == '(' || what[i] == ' ' {
			return what[:i]
		}
	}
	return what
}

// snapshot / verify that nobody but the receiver changed
func (e *engine) snapshot() [][]int {
	out := make([][]int, len(e.pool))
	for i, v := range e.pool {
		out[i] = append([]int(nil), v.s...)
	}
	return out
}

func (e *engine) verifyOthers(what string, snap [][]int, except int) {
	for i, v := range e.pool {
		if i == except {
			continue
		}
		if !eq(v.s, snap[i]) || !eq(v.s, v.m) {
			if e.keepRaw {
				e.r.Probe("interference-seen-in-a-run-that-keeps-results-as-returned")
			}
			e.r.Fail("interference", opName(what), "%s changed value #%d, which it must not touch: now %v, was %v (results kept as returned: %v)", what, i, []int(v.s), snap[i], e.keepRaw)
		}
		if !v.raw && !spareIntact(v.s) {
			e.r.Fail("interference", opName(what)+" spare capacity", "%s wrote into the spare capacity of value #%d (%v)", what, i, []int(v.s[:cap(v.s)]))
		}
	}
}

func (e *engine) put(xs []int) int {
	v := &val{s: withCap(xs, e.extra()), m: append([]int(nil), xs...)}
	if len(e.pool) < 6 {
		e.pool = append(e.pool, v)
		return len(e.pool) - 1
	}
	i := e.r.T.Draw(len(e.pool))
	e.pool[i] = v
	return i
}

func setOp(op string, a, b []int) []int {
	in := func(s []int, x int) bool { i := sort.SearchInts(s, x); return i < len(s) && s[i] == x }
	var out []int
	switch op {
	case "union":
		out = modelOf(append(append([]int(nil), a...), b...))
	case "inter":
		for _, x := range a {
			if in(b, x) {
				out = append(out, x)
			}
		}
	case "minus":
		for _, x := range a {
			if !in(b, x) {
				out = append(out, x)
			}
		}
	case "xor":
		for _, x := range a {
			if !in(b, x) {
				out = append(out, x)
			}
		}
		for _, x := range b {
			if !in(a, x) {
				out = append(out, x)
			}
		}
		sort.Ints(out)
	}
	if out == nil {
		out = []int{}
	}
	return out
}

func runSets(r *driver.Run) {
	t := r.T
	e := &engine{r: r}
	switch t.Draw(5) {
	case 4:
		e.extreme = true
		r.Probe("extreme-int-values")
	case 0:
		e.lo, e.hi = 0, 7
	case 1:
		e.lo, e.hi = -5, 5
	case 2:
		e.lo, e.hi = -40, 40
	default:
		e.lo, e.hi = -1000000, 1000000
	}
	nops := t.Range(1, 50)
	e.keepRaw = t.Chance(1, 2)
	r.Logf("config values in [%d,%d], %d ops, results kept as returned=%v", e.lo, e.hi, nops, e.keepRaw)
	e.put(modelOf(e.drawList(6)))
	if t.Chance(1, 8) {
		// a few large sets in the pool (block sizes / binary-search fast paths of any optimisation)
		for k := 0; k < 2; k++ {
			sz := 40 + t.Draw(260)
			xs := make([]int, sz)
			base := e.drawInt()
			stepMax := 3
			if e.extreme {
				switch t.Draw(3) {
				case 0:
					base = -150
				case 1:
					base, stepMax = 1<<63-1-(sz-1), 1 // a run of consecutive ints ending exactly at MaxInt
				default:
					base, stepMax = -1<<63, 1 // a run starting exactly at MinInt
				}
			}
			for i := range xs {
				if i == 0 {
					xs[i] = base
				} else {
					xs[i] = xs[i-1] + 1 + t.Draw(stepMax) // clustered, so that small sets intersect them
				}
			}
			e.put(modelOf(xs))
		}
		r.Probe("large-sets-in-pool")
	}
	mutations := 0
	for op := 0; op < nops; op++ {
		k := t.Draw(17)
		ai, bi := t.Draw(len(e.pool)), t.Draw(len(e.pool))
		a, b := e.pool[ai], e.pool[bi]
		snap := e.snapshot()
		var what string
		switch k {
		case 0: // NewSortedInts
			xs := e.drawList(10)
			orig := append([]int(nil), xs...)
			what = fmt.Sprintf("NewSortedInts(%v)", xs)
			var got sortints.SortedInts
			r.Must("NewSortedInts", budget, func() { got = sortints.NewSortedInts(xs...) })
			e.checkResult(what, got, modelOf(orig))
			if !eq(xs, orig) {
				r.Fail("argument-modified", "NewSortedInts", "%s modified its argument list: now %v", what, xs)
			}
			e.verifyOthers(what, snap, -1)
			e.keep(got, modelOf(orig))
			for i := range xs { // the caller reuses its argument list: the new value must not alias it
				xs[i] = sentinel
			}
		case 1: // Range
			start, end := e.drawInt()%60, e.drawInt()%60
			step := t.Range(0, 9) - 4
			if t.Chance(1, 2) { // make most ranges finite
				if end > start && step <= 0 {
					step = 1 + t.Draw(4)
				} else if end < start && step >= 0 {
					step = -1 - t.Draw(4)
				}
			}
			if t.Chance(1, 5) {
				// ends at the limits of int and steps of any magnitude: the set is small, the
				// arithmetic on the way to it is what overflows
				edge := func() int {
					switch t.Draw(4) {
					case 0:
						return math.MaxInt - t.Draw(9)
					case 1:
						return math.MinInt + t.Draw(9)
					case 2:
						return t.Draw(9) - 4
					default:
						return []int{math.MaxInt / 2, math.MinInt / 2, math.MaxInt/2 + 1, math.MinInt/2 - 1}[t.Draw(4)] + t.Draw(5) - 2
					}
				}
				start, end = edge(), edge()
				switch t.Draw(4) {
				case 0:
					step = 1 + t.Draw(4)
				case 1:
					step = math.MaxInt - t.Draw(3)
				case 2:
					step = math.MaxInt/2 + t.Draw(5) - 2
				default:
					step = math.MaxInt/4 + t.Draw(9)
				}
				if end < start {
					step = -step
					if t.Chance(1, 8) {
						step = math.MinInt
					}
				}
				r.Probe("range-at-the-limits-of-int")
			}
			what = fmt.Sprintf("Range(%d,%d,%d)", start, end, step)
			infinite := (end < start && step > 0) || (end > start && step < 0) || (end != start && step == 0)
			if !infinite && end != start {
				// a finite set too large to be a slice is not asked for
				dist := new(big.Int).Abs(new(big.Int).Sub(big.NewInt(int64(end)), big.NewInt(int64(start))))
				if dist.Div(dist, new(big.Int).Abs(big.NewInt(int64(step)))).Cmp(big.NewInt(2000)) > 0 {
					r.Probe("range-too-large-skipped")
					break
				}
			}
			var got sortints.SortedInts
			pd := r.Call("Range", budget, func() { got = sortints.Range(start, end, step) })
			if infinite {
				if pd == "" {
					r.Fail("range-infinite", "Range", "%s describes an infinite set and is documented to panic, but returned %v", what, []int(got))
				}
				r.Probe("range-infinite-set-panics")
			} else {
				if pd != "" {
					r.Fail("panic", "Range @ "+pd, "%s panicked: %s", what, pd)
				}
				var want []int
				if end != start {
					// exact arithmetic: the elements start + i*step in [start, end) resp. (end, start]
					bs, be, bst := big.NewInt(int64(start)), big.NewInt(int64(end)), big.NewInt(int64(step))
					dist := new(big.Int).Abs(new(big.Int).Sub(be, bs))
					cnt := new(big.Int).Add(dist, new(big.Int).Abs(bst))
					cnt.Sub(cnt, big.NewInt(1)).Div(cnt, new(big.Int).Abs(bst))
					for i := int64(0); i < cnt.Int64(); i++ {
						x := new(big.Int).Add(bs, new(big.Int).Mul(big.NewInt(i), bst))
						want = append(want, int(x.Int64()))
					}
				}
				if step < 0 {
					r.Probe("range-descending")
				}
				want = modelOf(want)
				e.checkResult(what, got, want)
				e.verifyOthers(what, snap, -1)
				e.keep(got, want)
			}
		case 2, 3: // Add
			xs := e.drawList(5)
			if t.Chance(1, 24) {
				xs = e.drawList(200) // a long, unsorted argument list with repeats
				if len(xs) > 64 {
					r.Probe("add-with-more-than-64-arguments")
				}
			}
			if t.Chance(1, 3) && len(a.m) > 0 { // elements already present, possibly repeated
				p := a.m[t.Draw(len(a.m))]
				xs = append(xs, p)
				if t.Chance(1, 2) {
					xs = append(xs, p)
					r.Probe("add-repeated-argument-already-present")
				}
			}
			orig := append([]int(nil), xs...)
			what = fmt.Sprintf("#%d%v.Add(%v)", ai, a.m, xs)
			r.Must("Add", budget, func() { a.s.Add(xs...) })
			a.m = modelOf(append(append([]int(nil), a.m...), orig...))
			e.checkResult(what, a.s, a.m)
			if !eq(xs, orig) {
				r.Fail("argument-modified", "Add", "%s modified its argument list: now %v", what, xs)
			}
			for i := range xs { // the caller reuses its argument list
				xs[i] = sentinel
			}
			if !eq(a.s, a.m) {
				r.Fail("interference", "Add aliases its argument list", "%s: the receiver changed when the caller overwrote its own argument list afterwards: now %v", what, []int(a.s))
			}
			e.verifyOthers(what, snap, ai)
			e.rewrap(a)
			mutations++
		case 4: // Remove
			x := e.drawInt()
			if t.Chance(1, 2) && len(a.m) > 0 {
				x = a.m[t.Draw(len(a.m))]
			}
			what = fmt.Sprintf("#%d%v.Remove(%d)", ai, a.m, x)
			r.Must("Remove", budget, func() { a.s.Remove(x) })
			a.m = setOp("minus", a.m, []int{x})
			e.checkResult(what, a.s, a.m)
			e.verifyOthers(what, snap, ai)
			e.rewrap(a)
			mutations++
		case 5, 6: // method Union
			what = fmt.Sprintf("#%d%v.Union(#%d%v) [cap-len %d]", ai, a.m, bi, b.m, cap(a.s)-len(a.s))
			want := setOp("union", a.m, b.m)
			if cap(a.s) >= len(want) && len(want) > len(a.m) {
				r.Probe("union-in-place-into-spare-capacity")
			}
			bBefore := append([]int(nil), b.m...)
			r.Must("Union(method)", budget, func() { a.s.Union(b.s) })
			a.m = want
			e.checkResult(what, a.s, a.m)
			if ai != bi && !eq(b.s, bBefore) {
				r.Fail("argument-modified", "Union(method)", "%s modified its argument: now %v", what, []int(b.s))
			}
			e.verifyOthers(what, snap, ai)
			e.rewrap(a)
			mutations++
		case 7, 8, 9, 10: // binary functions
			name := []string{"union", "inter", "minus", "xor"}[k-7]
			fn := []func(x, y sortints.SortedInts) sortints.SortedInts{sortints.Union, sortints.Intersection, sortints.SetMinus, sortints.XOR}[k-7]
			disp := []string{"Union", "Intersection", "SetMinus", "XOR"}[k-7]
			what = fmt.Sprintf("%s(#%d%v, #%d%v)", disp, ai, a.m, bi, b.m)
			var got sortints.SortedInts
			r.Must(disp, budget, func() { got = fn(a.s, b.s) })
			want := setOp(name, a.m, b.m)
			e.checkResult(what, got, want)
			e.verifyOthers(what, snap, -1)
			e.keep(got, want)
		case 11:
			what = fmt.Sprintf("IntersectionSize(#%d%v, #%d%v)", ai, a.m, bi, b.m)
			var got int
			r.Must("IntersectionSize", budget, func() { got = sortints.IntersectionSize(a.s, b.s) })
			if want := len(setOp("inter", a.m, b.m)); got != want {
				r.Fail("wrong-result", "IntersectionSize", "%s = %d, want %d", what, got, want)
			}
			e.verifyOthers(what, snap, -1)
		case 12: // Complement
			n := t.Range(0, 12)
			what = fmt.Sprintf("Complement(%d, #%d%v)", n, ai, a.m)
			var got sortints.SortedInts
			r.Must("Complement", budget, func() { got = sortints.Complement(n, a.s) })
			univ := make([]int, n)
			for i := range univ {
				univ[i] = i
			}
			want := setOp("minus", univ, a.m)
			if len(a.m) > n {
				r.Probe("complement-of-a-set-larger-than-n")
			}
			e.checkResult(what, got, want)
			e.verifyOthers(what, snap, -1)
			e.keep(got, want)
		case 13:
			x := e.drawInt()
			if t.Chance(1, 2) && len(a.m) > 0 {
				x = a.m[t.Draw(len(a.m))]
			}
			what = fmt.Sprintf("ContainsSingle(#%d%v, %d)", ai, a.m, x)
			var got bool
			r.Must("ContainsSingle", budget, func() { got = sortints.ContainsSingle(a.s, x) })
			if want := len(setOp("inter", a.m, []int{x})) == 1; got != want {
				r.Fail("wrong-result", "ContainsSingle", "%s = %v, want %v", what, got, want)
			}
			e.verifyOthers(what, snap, -1)
		case 14, 15:
			bb := b
			if t.Chance(1, 2) { // a genuine subset, so that 'true' is exercised
				sub := []int{}
				for _, x := range a.m {
					if t.Chance(1, 2) {
						sub = append(sub, x)
					}
				}
				bb = &val{s: withCap(sub, e.extra()), m: sub}
			}
			what = fmt.Sprintf("ContainsSorted(#%d%v, %v)", ai, a.m, bb.m)
			var got bool
			r.Must("ContainsSorted", budget, func() { got = sortints.ContainsSorted(a.s, bb.s) })
			if want := len(setOp("minus", bb.m, a.m)) == 0; got != want {
				r.Fail("wrong-result", "ContainsSorted", "%s = %v, want %v", what, got, want)
			}
			if !eq(bb.s, bb.m) || (!bb.raw && !spareIntact(bb.s)) {
				r.Fail("argument-modified", "ContainsSorted", "%s modified its second argument", what)
			}
			e.verifyOthers(what, snap, -1)
		case 16: // nil / zero-value receiver
			var z sortints.SortedInts
			xs := e.drawList(4)
			what = fmt.Sprintf("nil.Add(%v)", xs)
			orig := append([]int(nil), xs...)
			r.Must("Add", budget, func() { z.Add(xs...) })
			e.checkResult(what, z, modelOf(orig))
			e.verifyOthers(what, snap, -1)
			e.keep(z, modelOf(orig))
		}
		r.Logf("%s", what)
	}
	r.Count("ops", int64(nops))
	r.Nontrivial = nops >= 3 && mutations >= 1
}

// ---- ints.Sort ----------------------------------------------------------------

func runSort(r *driver.Run) {
	t := r.T
	var n int
	switch t.Draw(5) {
	case 0:
		n = t.Range(0, 12) // insertion sort
	case 1:
		n = t.Range(13, 100)
	case 2:
		n = t.Range(100, 1000)
	case 3:
		n = t.Range(1000, 5000)
	default:
		n = []int{0, 1, 2, 11, 12, 13, 40, 41, 50, 51, 4096}[t.Draw(11)]
	}
	shape := t.Draw(11)
	xs := make([]int, n)
	vr := []int{2, 5, 1000, 1 << 40}[t.Draw(4)]
	for i := range xs {
		switch shape {
		case 0:
			xs[i] = t.Draw(vr) - vr/2
		case 1:
			xs[i] = i
		case 2:
			xs[i] = n - i
		case 3: // organ pipe
			if i < n/2 {
				xs[i] = i
			} else {
				xs[i] = n - i
			}
		case 4: // few distinct
			xs[i] = t.Draw(3)
		case 5: // sawtooth
			xs[i] = i % (1 + vr%17)
		case 6: // median-of-three killer-ish
			if i%2 == 0 {
				xs[i] = i / 2
			} else {
				xs[i] = n/2 + i/2
			}
		default:
			xs[i] = 7
		}
	}
	if shape == 10 {
		// nearly sorted: ascending with one to three elements out of place, mostly near the front
		for i := range xs {
			xs[i] = 3 * i
		}
		for k := 0; k < 1+t.Draw(3) && n > 0; k++ {
			pos := t.Draw(n)
			if t.Chance(2, 3) {
				pos = t.Draw(min(n, 6))
			}
			xs[pos] = t.Draw(3*n+7) - 5
		}
		r.Probe("sort-nearly-sorted")
	}
	if shape == 9 {
		// values at both ends of the int range (differences overflow)
		for i := range xs {
			if t.Chance(1, 3) {
				xs[i] = extremes[t.Draw(len(extremes))]
			} else {
				xs[i] = t.Draw(100) - 50
			}
		}
		r.Probe("sort-extreme-int-values")
	}
	if shape == 8 {
		// quicksort killer: forces the depth limit, i.e. the heapsort fallback
		xs = gutil.QuicksortKiller(n)
		switch t.Draw(3) {
		case 1:
			for i := range xs { // same order type, with duplicates
				xs[i] /= 2
			}
		case 2:
			// same order type, spread over the whole int range (differences overflow)
			if n > 0 {
				step := uint64(1<<63-1)/uint64(n)*2 + 1
				for i := range xs {
					xs[i] = int(uint64(xs[i])*step) + (-1 << 63)
				}
				r.Probe("sort-killer-with-extreme-values")
			}
		}
		r.Probe("sort-quicksort-killer-input")
	}
	r.Logf("ints.Sort: n=%d shape=%d", n, shape)
	want := append([]int(nil), xs...)
	sort.Ints(want)
	got := append([]int(nil), xs...)
	r.Must("ints.Sort", int64(4000+400*n*20), func() { ints.Sort(got) })
	if !eq(got, want) {
		i := 0
		for i < len(got) && got[i] == want[i] {
			i++
		}
		r.Fail("wrong-result", "ints.Sort", "ints.Sort differs from sort.Ints on n=%d shape=%d at index %d (got %d want %d)", n, shape, i, got[i], want[i])
	}
	if n > 12 {
		r.Probe("sort-beyond-insertion-sort-threshold")
	}
	r.Obs(uint64(n), uint64(shape))
	r.ObsInts(got[:min(len(got), 8)])
	r.Nontrivial = n > 12
}

func min(a, b int) int {
	if a < b {
		return a
	}
	return b
}

func main() {
	driver.Main(&driver.Spec{
		Property: "C17",
		Engine:   "sortints-ops",
		Level:    "exploration",
		Rule: "a case is one seeded history of up to 50 operations over a pool of up to 6 long-lived SortedInts values with spare capacity 0/1/2/7/40 (whole sortints API, aliased operands allowed), or (1 run in 8) one ints.Sort call on a slice shaped to reach the insertion-sort, quicksort and heapsort branches (length <= 5000). " +
			"After every operation the result must be strictly increasing and equal the map model, arguments bit-identical, every other pool member and its spare capacity untouched. Non-trivial = at least 3 operations including a mutation (or a sort of more than 12 elements); distinct = distinct fingerprints of the observed results.",
		Assumptions: []string{
			"values are within +-1e6 (one run in five: taken from a list of extreme ints incl. MinInt/MaxInt) and set sizes are small; Range uses ends within +-60 and steps within +-5, and in one Range call in five ends at the limits of int (MaxInt-8..MaxInt, MinInt..MinInt+8, around MaxInt/2 and 0) with steps from 1 to MaxInt and MinInt; ranges of more than 2000 elements are not asked for",
			"Complement is called with n >= 0",
			"no fault or schedule exists in this code: the simulator contributes seeded histories over long-lived values, the lock-step model, minimisation and replay",
		},
		Real:       []string{"package sortints (all exported functions and methods)", "ints.Sort"},
		ProbeFuncs: []string{"ints.heapSort", "ints.siftDown", "ints.insertionSort", "ints.doPivot", "ints.medianOfThree", "sortints.SortedInts.Union", "sortints.*SortedInts.Union"},
		Stubs:      []string{"none"},
		Plan: func(tier string) driver.Plan {
			if tier == "thorough" {
				return driver.Plan{Random: 2000000, WallLimit: 20 * time.Minute}
			}
			return driver.Plan{Random: 400000, WallLimit: 5 * time.Minute}
		},
		RunOne: func(r *driver.Run) {
			if r.T.Draw(8) == 7 {
				runSort(r)
			} else {
				runSets(r)
			}
		},
	})
}
