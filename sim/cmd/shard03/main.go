// Engine shard-cluster (C03): the m shards of one search are m parties advanced in a
// seeded interleaving; conservation / exactly-once over everything they emit, against
// an independent enumeration of the isomorphism classes.
package main

import (
	"fmt"
	"sort"
	"time"

	"github.com/Tom-Johnston/mamba/graph"
	"github.com/Tom-Johnston/mamba/graph/search"
	"mambasim/driver"
	"mambasim/gutil"
	"mambasim/model"
)

type config struct {
	n, m      int
	pred      int // -1: none
	placement int // 0: preprune, 1: prune, 2: both
}

var (
	preds      = model.Preds()
	classCache = map[string]map[model.Code]bool{}
)

func classes(n int, name string, f func(*model.G) bool) map[model.Code]bool {
	k := fmt.Sprintf("%d/%s", n, name)
	if c, ok := classCache[k]; ok {
		return c
	}
	c := model.Classes(n, f)
	if len(classCache) > 64 {
		classCache = map[string]map[model.Code]bool{}
	}
	classCache[k] = c
	return c
}

func configs(tier string) []config {
	var cs []config
	seq := func(k int) []int {
		out := make([]int, k)
		for i := range out {
			out[i] = i + 1
		}
		return out
	}
	for n := 0; n <= 7; n++ {
		for _, m := range seq(12) {
			cs = append(cs, config{n, m, -1, 0})
		}
		for p := range preds {
			for pl := 0; pl < 3; pl++ {
				for _, m := range seq(12) {
					cs = append(cs, config{n, m, p, pl})
				}
			}
		}
	}
	// n = 8
	m8, mp8 := seq(8), []int{1, 2, 3, 5}
	if tier == "thorough" {
		m8, mp8 = seq(16), seq(12)
	}
	for _, m := range m8 {
		cs = append(cs, config{8, m, -1, 0})
	}
	for p := range preds {
		for pl := 0; pl < 3; pl++ {
			for _, m := range mp8 {
				if pl == 2 && tier != "thorough" && m > 2 {
					continue
				}
				cs = append(cs, config{8, m, p, pl})
			}
		}
	}
	// n = 9, 10 (thorough: 11) for the strongly pruned families: the sizes at which table
	// entries and k-subset ranks beyond those of the unpruned n <= 8 searches are used
	big := []int{9, 10}
	bigM := []int{1, 3}
	if tier == "thorough" {
		big = []int{10, 11}
		bigM = []int{1, 2, 5}
	}
	for _, n := range big {
		for _, p := range []int{0, 6, 3, 5, 7} {
			for pl := 0; pl < 2; pl++ {
				for _, m := range bigM {
					cs = append(cs, config{n, m, p, pl})
				}
			}
		}
	}
	// n = 12, 13: sparse families, no duplicates (pairwise isomorphism inside invariant buckets) and
	// the same number of classes for both placements / splits
	cs = append(cs, config{12, 1, 4, 0}, config{12, 3, 7, 1})
	if tier == "thorough" {
		cs = append(cs, config{12, 3, 4, 1}, config{12, 2, 3, 0}, config{13, 2, 7, 0}, config{13, 1, 3, 1}, config{12, 5, 5, 0}, config{10, 1, 4, 0}, config{10, 3, 4, 1})
	}
	if tier == "thorough" {
		// n = 9: unpruned (count against A000088 + pairwise distinct is complete), and
		// the strongly pruned families against the oracle's class sets
		for _, m := range []int{1, 2, 3, 4, 5, 7, 11} {
			cs = append(cs, config{9, m, -1, 0})
		}
		// n = 10 unpruned, once: 12 005 168 graphs, pairwise distinct codes + count = A000088(10)
		cs = append(cs, config{10, 3, -1, 0})
		for _, p := range []int{0, 3, 4, 5, 6, 7} {
			for pl := 0; pl < 2; pl++ {
				for _, m := range []int{1, 2, 3, 4, 6} {
					cs = append(cs, config{9, m, p, pl})
				}
			}
		}
	}
	return cs
}

var cfgCache = map[string][]config{}

func cfgs(tier string) []config {
	if c, ok := cfgCache[tier]; ok {
		return c
	}
	c := configs(tier)
	cfgCache[tier] = c
	return c
}

func runConfig(r *driver.Run, c config, predName string, pf func(*model.G) bool) {
	t := r.T
	n, m := c.n, c.m
	never := func(g *graph.DenseGraph) bool { return false }
	calls := 0
	// In a third of the configurations the predicate behaves like user code that looks at the
	// graph through the library's observers and keeps / overwrites what they return (the
	// results of observers belong to the caller), and through a live view of it.
	observe := t.Chance(1, 3)
	predProblem := ""
	pr := func(g *graph.DenseGraph) bool {
		calls++
		if observe {
			if predProblem == "" {
				// a predicate may use any observer (M, Degrees, ...): what it is handed must be a
				// well-formed graph on the current number of vertices
				if wf := gutil.DenseWellFormed(g, g.N()); wf != "" {
					predProblem = fmt.Sprintf("call %d, graph %s: %s", calls, gutil.G6(gutil.ToModel(g)), wf)
				}
			}
			deg := g.Degrees()
			for i := range deg {
				deg[i] = -1
			}
			if g.N() > 0 {
				nb := g.Neighbours(g.N() - 1)
				for i := range nb {
					nb[i] = -1
				}
			}
			c := graph.Complement(g)
			_ = graph.MaxDegree(c)
			_ = c.Degrees()
			_ = graph.MinDegree(g)
		}
		return !pf(gutil.ToModel(g))
	}
	pre, pru := never, never
	if pf != nil {
		switch c.placement {
		case 0:
			pre = pr
		case 1:
			pru = pr
		default:
			pre, pru = pr, pr
		}
	}
	policy := t.Draw(3) // 0 round-robin, 1 one after another, 2 tape-random
	r.Logf("config n=%d m=%d predicate=%s placement=%s interleaving=%s predicate-uses-library-observers=%v", n, m, predName, []string{"preprune", "prune", "both"}[c.placement], []string{"round-robin", "sequential", "random"}[policy], observe)
	iters := make([]*search.GraphIterator, m)
	budget := int64(400_000_000)
	for a := 0; a < m; a++ {
		a := a
		r.Must("WithPruning", budget, func() {
			if pf == nil {
				iters[a] = search.All(n, a, m)
			} else {
				iters[a] = search.WithPruning(n, a, m, pre, pru)
			}
		})
	}
	live := make([]int, m)
	for a := range live {
		live[a] = a
	}
	seen := map[model.Code]int{} // code -> shard that produced it first
	firstG := map[model.Code]string{}
	// very large unpruned searches (n = 10: 12 005 168 graphs): codes are collected in a flat
	// slice and checked for duplicates by sorting at the end
	huge := pf == nil && n >= 10
	var codes []uint64
	// n >= 12 (sparse pruned families only): the 64-bit canonical code does not reach; graphs are
	// bucketed by an isomorphism invariant and compared pairwise inside the buckets
	wide := n >= 12
	buckets := map[string][]*model.G{}
	perShard := make([]int, m)
	total := 0
	rr := 0
	for len(live) > 0 {
		var li int
		switch policy {
		case 0:
			li = rr % len(live)
			rr++
		case 1:
			li = 0
		default:
			li = t.Draw(len(live))
		}
		a := live[li]
		var ok bool
		r.Must(fmt.Sprintf("Next(shard %d)", a), budget, func() { ok = iters[a].Next() })
		if !ok {
			// exhausted: must stay exhausted
			var again bool
			r.Must("Next(after exhaustion)", budget, func() { again = iters[a].Next() })
			if again {
				r.Fail("resurrected", "Next after exhaustion", "shard %d/%d of n=%d returned true after returning false", a, m, n)
			}
			live = append(live[:li], live[li+1:]...)
			if policy == 0 && len(live) > 0 {
				rr = li % len(live)
			}
			continue
		}
		var g *graph.DenseGraph
		var wf string
		var mg *model.G
		r.Must("Value", budget, func() {
			g = iters[a].Value()
			wf = gutil.DenseWellFormed(g, n)
			if wf == "" {
				mg = gutil.ToModel(g)
			}
		})
		if wf != "" {
			r.Fail("malformed-value", "Value", "shard %d/%d of n=%d (%s) yielded a malformed graph (#%d of the shard): %s", a, m, n, predName, perShard[a], wf)
		}
		if wide {
			if pf != nil && !pf(mg) {
				r.Fail("predicate", "yielded graph violates the predicate", "n=%d m=%d: shard %d yielded %s which does not satisfy %s", n, m, a, gutil.G6(mg), predName)
			}
			sig := model.WideSig(mg)
			for _, h := range buckets[sig] {
				if model.Isomorphic(mg, h) {
					r.Fail("duplicate", "two yielded graphs are isomorphic", "n=%d m=%d %s (%s): %s and %s are both yielded and are isomorphic", n, m, predName, []string{"preprune", "prune", "both"}[c.placement], gutil.G6(mg), gutil.G6(h))
				}
			}
			buckets[sig] = append(buckets[sig], mg)
			perShard[a]++
			total++
			continue
		}
		code, _ := model.Canon(mg)
		if huge {
			codes = append(codes, code.Bits)
			perShard[a]++
			total++
			continue
		}
		if prev, dup := seen[code]; dup {
			r.Fail("duplicate", "two yielded graphs are isomorphic", "n=%d m=%d %s: shard %d yielded %s which is isomorphic to %s yielded by shard %d", n, m, predName, a, gutil.G6(mg), firstG[code], prev)
		}
		if pf != nil && !pf(mg) {
			r.Fail("predicate", "yielded graph violates the predicate", "n=%d m=%d: shard %d yielded %s which does not satisfy %s", n, m, a, gutil.G6(mg), predName)
		}
		seen[code] = a
		firstG[code] = gutil.G6(mg)
		perShard[a]++
		total++
		r.Obs(code.Bits)
		if total <= 6 {
			r.Logf("shard %d -> %s", a, gutil.G6(mg))
		}
	}
	r.Logf("... %d graphs in all, per shard %v, predicate called %d times", total, perShard, calls)
	if predProblem != "" {
		r.Fail("malformed-value", "graph handed to the predicate", "n=%d m=%d %s: the graph handed to the pruning predicate is not well formed (%s)", n, m, predName, predProblem)
	}
	if huge {
		sort.Slice(codes, func(i, j int) bool { return codes[i] < codes[j] })
		for i := 1; i < len(codes); i++ {
			if codes[i] == codes[i-1] {
				r.Fail("duplicate", "two yielded graphs are isomorphic", "n=%d m=%d unpruned: two yielded graphs have the same canonical code %x", n, m, codes[i])
			}
		}
		r.Probe("huge-unpruned-search-checked-by-sorted-codes")
	}
	if wide {
		// completeness cannot be decided independently at this size; what can: the number of classes
		// does not depend on where the predicate is placed nor on the split (a second, unsplit pass
		// with the other placement must yield as many graphs)
		var other *search.GraphIterator
		r.Must("WithPruning", budget, func() {
			if c.placement == 0 {
				other = search.WithPruning(n, 0, 1, never, pr)
			} else {
				other = search.WithPruning(n, 0, 1, pr, never)
			}
		})
		cnt := 0
		for {
			var ok bool
			r.Must("Next(second pass)", budget, func() { ok = other.Next() })
			if !ok {
				break
			}
			cnt++
		}
		if cnt != total {
			r.Fail("missing", "class count differs between placements", "n=%d %s: %d graphs with the predicate as %s and m=%d, %d with the other placement and m=1", n, predName, total, []string{"preprune", "prune", "both"}[c.placement], m, cnt)
		}
		r.Probe("wide-search-checked-by-pairwise-isomorphism")
		r.Count("graphs_yielded", int64(total))
		r.Nontrivial = total >= 4
		return
	}
	// completeness
	if pf == nil && n < len(model.A000088) {
		if total != model.A000088[n] {
			r.Fail("missing", "class count", "n=%d m=%d unpruned: the shards yielded %d pairwise non-isomorphic graphs, there are %d classes (per shard %v)", n, m, total, model.A000088[n], perShard)
		}
		if n <= 8 {
			want := classes(n, "all", nil)
			for cd := range want {
				if _, ok := seen[cd]; !ok {
					r.Fail("missing", "class missing", "n=%d m=%d unpruned: class with code %x is not yielded by any shard", n, m, cd.Bits)
				}
			}
		}
	} else {
		want := classes(n, predName, pf)
		for cd := range want {
			if _, ok := seen[cd]; !ok {
				r.Fail("missing", "class missing", "n=%d m=%d %s (%s): a class satisfying the predicate (code %x) is not yielded by any shard; %d yielded, %d expected", n, m, predName, []string{"preprune", "prune", "both"}[c.placement], cd.Bits, total, len(want))
			}
		}
		if len(want) != total {
			r.Fail("extra", "class count", "n=%d m=%d %s: %d graphs yielded, the oracle has %d classes", n, m, predName, total, len(want))
		}
	}
	r.Count("graphs_yielded", int64(total))
	nonEmpty := 0
	for _, k := range perShard {
		if k > 0 {
			nonEmpty++
		}
	}
	if nonEmpty >= 2 {
		r.Probe("two-or-more-non-empty-shards")
	}
	r.Nontrivial = total >= 4
}

// randomPred draws a hereditary predicate: a listed one, "no induced copy of H" for a
// tape-drawn H on 2..4 vertices, or the conjunction of two of those.
func randomPred(r *driver.Run) (string, func(*model.G) bool) {
	t := r.T
	one := func() (string, func(*model.G) bool) {
		if t.Chance(1, 2) {
			p := preds[t.Draw(len(preds))]
			return p.Name, p.F
		}
		k := t.Range(2, 4)
		h := model.NewG(k)
		for j := 0; j < k; j++ {
			for i := 0; i < j; i++ {
				if t.Chance(1, 2) {
					h.Add(i, j)
				}
			}
		}
		return "induced-" + gutil.G6(h) + "-free", model.InducedFree(h)
	}
	n1, f1 := one()
	if t.Chance(1, 4) {
		n2, f2 := one()
		return n1 + "&" + n2, func(g *model.G) bool { return f1(g) && f2(g) }
	}
	return n1, f1
}

func main() {
	driver.Main(&driver.Spec{
		Property: "C03",
		Engine:   "shard-cluster",
		Level:    "exploration",
		Rule: "a case is one configuration (n, m, hereditary predicate, placement as preprune / prune / both): all m shard iterators are created and advanced by one consumer in a seeded interleaving (round-robin, one after another, tape-random) until all are exhausted (and must stay exhausted); every yielded value must be a well-formed graph on n vertices, the independent canonical codes of all yielded graphs must be pairwise distinct and their set must equal the independently generated set of classes satisfying the predicate (unpruned: additionally the count must equal A000088(n)). " +
			"Enumerated: all (n <= 7, m <= 12) unpruned and with each of 8 listed predicates x 3 placements; n = 8 unpruned for m <= 8 and predicates for m in {1,2,3,5} (thorough: m <= 16 resp. 12; n = 9 unpruned for 7 values of m and n = 10 unpruned once); n = 9, 10 (thorough 10, 11) for the strongly pruned families triangle-free, bipartite, max-degree<=2, edges<=5, forest. n = 12, 13 for max-degree<=3 (n = 12), max-degree<=2, forest, edges<=5: no two yielded graphs isomorphic (pairwise test inside invariant buckets) and equal counts for both placements and for split and unsplit search; n = 10 max-degree<=3 against the oracle (thorough). Random runs draw n <= 7, m <= 10 (one in six: m from {13,...,257}) and a tape-drawn hereditary predicate (listed, induced-H-free for a random H on 2-4 vertices, or a conjunction). Non-trivial = at least 4 graphs yielded; distinct = distinct fingerprints of the yielded code sequences.",
		Assumptions: []string{
			"predicates are hereditary (closed under induced subgraphs) by construction",
			"n <= 8 unpruned (9 in thorough), n <= 10 (11 in thorough) for strongly pruned families: a defect that needs more vertices is not reached",
			"the IsoOracle (minimum adjacency string over invariant-respecting vertex orders) shares no code with mamba and reproduces A000088 and the triangle-free / bipartite / forest counts up to n = 8",
		},
		Real:  []string{"graph/search (All, WithPruning, Next, Value)", "graph canonical labelling, comb, itertools, disjoint as used by the search"},
		Stubs: []string{"the consumer that advances the shards", "the pruning predicates (harness code called back by the search)"},
		Plan: func(tier string) driver.Plan {
			if tier == "thorough" {
				return driver.Plan{Enum: len(cfgs(tier)), Random: 60000, Exhaustive: false, WallLimit: 40 * time.Minute}
			}
			return driver.Plan{Enum: len(cfgs(tier)), Random: 6000, Exhaustive: false, WallLimit: 6 * time.Minute}
		},
		RunOne: func(r *driver.Run) {
			if r.Case >= 0 {
				cs := cfgs(r.Tier)
				c := cs[r.Case%len(cs)]
				if c.pred < 0 {
					runConfig(r, c, "none", nil)
				} else {
					runConfig(r, c, preds[c.pred].Name, preds[c.pred].F)
				}
				return
			}
			t := r.T
			c := config{n: t.Range(0, 7), m: 1 + t.Draw(10), placement: t.Draw(3)}
			if t.Chance(1, 6) {
				// unusual split moduli (far more shards than choices at the split level)
				c.m = []int{13, 16, 17, 20, 31, 32, 33, 64, 65, 70, 100, 257}[t.Draw(12)]
				r.Probe("large-split-modulus")
			}
			if t.Chance(1, 5) {
				runConfig(r, c, "none", nil)
				return
			}
			name, f := randomPred(r)
			runConfig(r, c, name, f)
		},
	})
}
