// Engine graph-edit (C05): seeded edit histories on a pool of logical graphs, each
// held as a DenseGraph, a SparseGraph and an adjacency-set model.
package main

import (
	"fmt"
	"time"

	"github.com/Tom-Johnston/mamba/graph"
	"github.com/Tom-Johnston/mamba/sortints"
	"mambasim/driver"
)

type model struct {
	n   int
	adj map[[2]int]bool
}

func key(i, j int) [2]int {
	if i > j {
		i, j = j, i
	}
	return [2]int{i, j}
}

func (m *model) copy() *model {
	c := &model{n: m.n, adj: map[[2]int]bool{}}
	for k := range m.adj {
		c.adj[k] = true
	}
	return c
}
func (m *model) isEdge(i, j int) bool { return i != j && m.adj[key(i, j)] }
func (m *model) neighbours(v int) []int {
	out := []int{}
	for u := 0; u < m.n; u++ {
		if m.isEdge(u, v) {
			out = append(out, u)
		}
	}
	return out
}
func (m *model) removeVertex(v int) {
	na := map[[2]int]bool{}
	for k := range m.adj {
		if k[0] == v || k[1] == v {
			continue
		}
		a, b := k[0], k[1]
		if a > v {
			a--
		}
		if b > v {
			b--
		}
		na[[2]int{a, b}] = true
	}
	m.adj = na
	m.n--
}
func (m *model) induced(V []int) *model {
	c := &model{n: len(V), adj: map[[2]int]bool{}}
	for i := range V {
		for j := 0; j < i; j++ {
			if m.isEdge(V[i], V[j]) {
				c.adj[key(i, j)] = true
			}
		}
	}
	return c
}
func (m *model) String() string {
	s := fmt.Sprintf("n=%d edges=", m.n)
	for j := 0; j < m.n; j++ {
		for i := 0; i < j; i++ {
			if m.isEdge(i, j) {
				s += fmt.Sprintf("%d-%d ", i, j)
			}
		}
	}
	return s
}

type entry struct {
	id     int
	d, s   graph.EditableGraph
	m      *model
	origin string
}

const budget = 3_000_000

type eng struct {
	r    *driver.Run
	pool []*entry
	next int
}

func eqInts(a, b []int) bool {
	if len(a) != len(b) {
		return false
	}
	for i := range a {
		if a[i] != b[i] {
			return false
		}
	}
	return true
}

// checkOne compares one representation with the model on every observer.
func (e *eng) checkOne(g graph.EditableGraph, rep string, en *entry, after string) {
	r := e.r
	m := en.m
	what := fmt.Sprintf("graph #%d (%s, %s)", en.id, rep, en.origin)
	var n, mm int
	r.Must(rep+".N", budget, func() { n = g.N() })
	if n != m.n {
		r.Fail("N", rep+".N", "after %s: %s N() = %d, model %s", after, what, n, m)
	}
	r.Must(rep+".M", budget, func() { mm = g.M() })
	if mm != len(m.adj) {
		r.Fail("M", rep+".M", "after %s: %s M() = %d, model has %d edges (%s)", after, what, mm, len(m.adj), m)
	}
	var deg []int
	r.Must(rep+".Degrees", budget, func() { deg = g.Degrees() })
	want := make([]int, m.n)
	for v := 0; v < m.n; v++ {
		want[v] = len(m.neighbours(v))
	}
	if !eqInts(deg, want) {
		r.Fail("Degrees", rep+".Degrees", "after %s: %s Degrees() = %v, want %v (%s)", after, what, deg, want, m)
	}
	degCopy := append([]int(nil), deg...)
	for i := range deg {
		deg[i] = -99 // what an observer returns belongs to the caller: scribbling on it must not reach the graph
	}
	for v := 0; v < m.n; v++ {
		var nb []int
		v := v
		r.Must(rep+".Neighbours", budget, func() { nb = g.Neighbours(v) })
		if !eqInts(nb, m.neighbours(v)) {
			r.Fail("Neighbours", rep+".Neighbours", "after %s: %s Neighbours(%d) = %v, want %v (%s)", after, what, v, nb, m.neighbours(v), m)
		}
		for i := range nb {
			nb[i] = -77 // see above
		}
		for u := 0; u < m.n; u++ {
			var ie bool
			u := u
			r.Must(rep+".IsEdge", budget, func() { ie = g.IsEdge(u, v) })
			if ie != m.isEdge(u, v) {
				r.Fail("IsEdge", rep+".IsEdge", "after %s: %s IsEdge(%d,%d) = %v, model says %v (%s)", after, what, u, v, ie, m.isEdge(u, v), m)
			}
		}
	}
	r.Obs(uint64(n), uint64(mm))
	r.ObsInts(degCopy)
}

func (e *eng) checkAll(after string) {
	for _, en := range e.pool {
		e.checkOne(en.d, "dense", en, after)
		e.checkOne(en.s, "sparse", en, after)
	}
}

func (e *eng) add(d, s graph.EditableGraph, m *model, origin string) {
	en := &entry{id: e.next, d: d, s: s, m: m, origin: origin}
	e.next++
	if len(e.pool) >= 4 {
		i := e.r.T.Draw(len(e.pool))
		e.r.Logf("  (graph #%d dropped from the pool)", e.pool[i].id)
		e.pool[i] = en
		return
	}
	e.pool = append(e.pool, en)
}

func (e *eng) fresh(maxN int) {
	r := e.r
	t := r.T
	n := t.Range(0, maxN)
	if maxN > 64 {
		n = t.Range(60, maxN-4)
	}
	m := &model{n: n, adj: map[[2]int]bool{}}
	dens := []int{0, 1, 2, 3, 4}[t.Draw(5)]
	useNil := t.Chance(1, 5)
	if !useNil {
		for j := 0; j < n; j++ {
			for i := 0; i < j; i++ {
				if t.Draw(4) < dens {
					m.adj[key(i, j)] = true
				}
			}
		}
	}
	var d *graph.DenseGraph
	var s *graph.SparseGraph
	if useNil {
		r.Must("NewDense", budget, func() { d = graph.NewDense(n, nil) })
		r.Must("NewSparse", budget, func() { s = graph.NewSparse(n, nil) })
	} else {
		// the caller's slice may have spare capacity holding garbage, and any non-zero byte
		// marks an edge
		ne := n * (n - 1) / 2
		spare := []int{0, 0, 1, n, 3 * n}[t.Draw(5)]
		backing := make([]byte, ne+spare)
		for i := range backing {
			backing[i] = byte(1 + i%3)
		}
		edges := backing[:ne]
		nonUnit := t.Chance(1, 8)
		if spare > 0 {
			r.Probe("NewDense-from-slice-with-garbage-spare-capacity")
		}
		for j := 0; j < n; j++ {
			for i := 0; i < j; i++ {
				edges[j*(j-1)/2+i] = 0
				if m.isEdge(i, j) {
					edges[j*(j-1)/2+i] = 1
					if nonUnit {
						edges[j*(j-1)/2+i] = []byte{1, 2, 255, 7}[t.Draw(4)]
						r.Probe("NewDense-with-non-unit-edge-bytes")
					}
				}
			}
		}
		nbs := make([]sortints.SortedInts, n)
		for v := 0; v < n; v++ {
			nb := m.neighbours(v)
			p := t.Perm(len(nb)) // NewSparse normalises: any order
			nbs[v] = make([]int, len(nb))
			for i := range nb {
				nbs[v][i] = nb[p[i]]
			}
		}
		r.Must("NewDense", budget, func() { d = graph.NewDense(n, edges) })
		r.Must("NewSparse", budget, func() { s = graph.NewSparse(n, nbs) })
		// the caller reuses the neighbour lists it passed to NewSparse (NewDense's argument is
		// left alone: whether NewDense copies is property C06, which is not claimed here)
		for v := range nbs {
			for i := range nbs[v] {
				nbs[v][i] = 0
			}
		}
	}
	e.add(d, s, m, "constructed")
	r.Logf("new graph #%d: %s (nil-args=%v)", e.next-1, m, useNil)
}

func runOne(r *driver.Run) {
	t := r.T
	e := &eng{r: r}
	maxN := []int{4, 6, 8, 12}[t.Draw(4)]
	nops := t.Range(1, 60)
	big := t.Chance(1, 40)
	if big {
		// occasionally a large graph (past 64 vertices: word / block boundaries of any
		// bit-set or chunked-clearing optimisation), with a short history
		maxN = 90
		nops = t.Range(1, 10)
		r.Probe("large-graph-history")
	}
	w := []int{2 + t.Draw(6), 2 + t.Draw(6), 2 + t.Draw(8), 2 + t.Draw(8), t.Draw(4), t.Draw(4), t.Draw(3)}
	r.Logf("config maxN=%d ops=%d weights=%v", maxN, nops, w)
	e.fresh(maxN)
	e.checkAll("construction")
	removals, edits := 0, 0
	for op := 0; op < nops; op++ {
		en := e.pool[t.Draw(len(e.pool))]
		m := en.m
		k := t.Weighted(w)
		var what string
		switch k {
		case 0: // AddVertex
			if m.n >= maxN {
				continue
			}
			var nb []int
			for v := 0; v < m.n; v++ {
				if t.Chance(1, 2) {
					nb = append(nb, v)
				}
			}
			p := t.Perm(len(nb))
			arg := make([]int, len(nb))
			for i := range nb {
				arg[i] = nb[p[i]]
			}
			if dg, ok := en.d.(*graph.DenseGraph); ok && cap(dg.Edges) >= len(dg.Edges)+m.n && m.n > 0 {
				r.Probe("dense-AddVertex-reuses-backing-array")
			}
			what = fmt.Sprintf("#%d.AddVertex(%v)", en.id, arg)
			a1, a2 := append([]int(nil), arg...), append([]int(nil), arg...)
			r.Must("dense.AddVertex", budget, func() { en.d.AddVertex(a1) })
			r.Must("sparse.AddVertex", budget, func() { en.s.AddVertex(a2) })
			if !eqInts(a1, arg) || !eqInts(a2, arg) {
				r.Fail("argument-modified", "AddVertex", "%s modified its argument", what)
			}
			for i := range a1 { // the caller reuses its buffer: the graph must not have kept it
				a1[i], a2[i] = 0, 0
			}
			for _, v := range nb {
				m.adj[key(v, m.n)] = true
			}
			m.n++
			edits++
		case 1: // RemoveVertex
			if m.n == 0 {
				continue
			}
			v := t.Draw(m.n)
			if v != m.n-1 {
				r.Probe("RemoveVertex-not-last")
			}
			what = fmt.Sprintf("#%d.RemoveVertex(%d)", en.id, v)
			r.Must("dense.RemoveVertex", budget, func() { en.d.RemoveVertex(v) })
			r.Must("sparse.RemoveVertex", budget, func() { en.s.RemoveVertex(v) })
			m.removeVertex(v)
			removals++
			edits++
		case 2, 3: // AddEdge / RemoveEdge
			if m.n == 0 {
				continue
			}
			i, j := t.Draw(m.n), t.Draw(m.n)
			if k == 2 {
				what = fmt.Sprintf("#%d.AddEdge(%d,%d) [present=%v]", en.id, i, j, m.isEdge(i, j))
				r.Must("dense.AddEdge", budget, func() { en.d.AddEdge(i, j) })
				r.Must("sparse.AddEdge", budget, func() { en.s.AddEdge(i, j) })
				if i != j {
					m.adj[key(i, j)] = true
				}
			} else {
				what = fmt.Sprintf("#%d.RemoveEdge(%d,%d) [present=%v]", en.id, i, j, m.isEdge(i, j))
				r.Must("dense.RemoveEdge", budget, func() { en.d.RemoveEdge(i, j) })
				r.Must("sparse.RemoveEdge", budget, func() { en.s.RemoveEdge(i, j) })
				delete(m.adj, key(i, j))
			}
			edits++
		case 4: // Copy
			what = fmt.Sprintf("#%d.Copy() -> #%d", en.id, e.next)
			var d, s graph.EditableGraph
			r.Must("dense.Copy", budget, func() { d = en.d.Copy() })
			r.Must("sparse.Copy", budget, func() { s = en.s.Copy() })
			e.add(d, s, m.copy(), fmt.Sprintf("copy of #%d", en.id))
		case 5: // InducedSubgraph
			var V []int
			full := t.Chance(1, 3)
			for v := 0; v < m.n; v++ {
				if full || t.Chance(1, 2) {
					V = append(V, v)
				}
			}
			p := t.Perm(len(V))
			arg := make([]int, len(V))
			for i := range V {
				arg[i] = V[p[i]]
			}
			what = fmt.Sprintf("#%d.InducedSubgraph(%v) -> #%d", en.id, arg, e.next)
			a1, a2 := append([]int(nil), arg...), append([]int(nil), arg...)
			var d, s graph.EditableGraph
			r.Must("dense.InducedSubgraph", budget, func() { d = en.d.InducedSubgraph(a1) })
			r.Must("sparse.InducedSubgraph", budget, func() { s = en.s.InducedSubgraph(a2) })
			if !eqInts(a1, arg) || !eqInts(a2, arg) {
				r.Fail("argument-modified", "InducedSubgraph", "%s modified its argument", what)
			}
			for i := range a1 {
				a1[i], a2[i] = 0, 0
			}
			e.add(d, s, m.induced(arg), fmt.Sprintf("InducedSubgraph(%v) of #%d", arg, en.id))
		case 6:
			e.fresh(maxN)
			what = "new graph"
		}
		r.Logf("%s", what)
		e.checkAll(what)
	}
	r.Count("ops", int64(nops))
	r.Nontrivial = edits >= 3 && removals >= 1
}

func main() {
	driver.Main(&driver.Spec{
		Property: "C05",
		Engine:   "graph-edit",
		Level:    "exploration",
		Rule: "a case is one seeded history of up to 60 operations (AddVertex with neighbours in any order, RemoveVertex of any vertex, AddEdge/RemoveEdge incl. present/absent/i=j, Copy, InducedSubgraph in any order, new graph) over a pool of up to 4 logical graphs (n <= 4/6/8/12 per run; one run in 40: 60-90 vertices), each held as DenseGraph + SparseGraph + model; after EVERY operation EVERY live object is compared with its model on N, M, Degrees, Neighbours(v) for all v and IsEdge for all pairs, so sharing between a copy/subgraph and its source shows up as drift. " +
			"Non-trivial = at least 3 edits including a RemoveVertex; distinct = distinct fingerprints of the observed (N, M, Degrees) sequences.",
		Assumptions: []string{
			"only arguments the EditableGraph interface documents as valid are generated (vertices in range, distinct neighbours / distinct V)",
			"n <= 12 with histories <= 60 operations; one run in 40 uses graphs of 60-90 vertices with histories <= 10 operations",
			"no fault or schedule exists in this code: the simulator contributes seeded histories over long-lived values, the lock-step model, minimisation and replay",
		},
		Real:  []string{"graph.DenseGraph", "graph.SparseGraph", "graph.NewDense", "graph.NewSparse", "sortints (inside SparseGraph)"},
		Stubs: []string{"none"},
		Plan: func(tier string) driver.Plan {
			if tier == "thorough" {
				return driver.Plan{Random: 1500000, WallLimit: 25 * time.Minute}
			}
			return driver.Plan{Random: 150000, WallLimit: 5 * time.Minute}
		},
		RunOne: runOne,
	})
}
