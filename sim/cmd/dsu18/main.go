// Engine dsu-ops (C18): seeded histories on one long-lived disjoint.Set against a
// label-array model.
package main

import (
	"fmt"
	"sort"
	"time"

	"github.com/Tom-Johnston/mamba/disjoint"
	"mambasim/driver"
)

// model: a label per element and the member list of every label; union relabels the
// smaller side (so that the deep-tree cases with 2^17 elements stay cheap).
type model struct {
	label   []int
	members map[int][]int
}

func newModel(n int) *model {
	m := &model{label: make([]int, n), members: map[int][]int{}}
	for i := range m.label {
		m.label[i] = i
		m.members[i] = []int{i}
	}
	return m
}

func (m *model) union(x, y int) {
	a, b := m.label[x], m.label[y]
	if a == b {
		return
	}
	if len(m.members[a]) < len(m.members[b]) {
		a, b = b, a
	}
	for _, i := range m.members[b] {
		m.label[i] = a
	}
	m.members[a] = append(m.members[a], m.members[b]...)
	delete(m.members, b)
}

func (m *model) sets() [][]int {
	var out [][]int
	seen := map[int]int{}
	for i, l := range m.label {
		if k, ok := seen[l]; ok {
			out[k] = append(out[k], i)
		} else {
			seen[l] = len(out)
			out = append(out, []int{i})
		}
	}
	return out
}

func depth(ds disjoint.Set, x int) int {
	d := 0
	for steps := 0; ds[x] >= 0 && steps <= len(ds); steps++ {
		x = ds[x]
		d++
	}
	return d
}

func budget(n int) int64 {
	if n > 1024 {
		return int64(1_000_000 + 400*n)
	}
	return int64(2000 + 200*n*n)
}

// checkPartition: same representative <=> same model label.
func checkPartition(r *driver.Run, ds *disjoint.Set, m *model, live bool, after string) {
	n := len(m.label)
	target := ds
	if !live {
		cp := make(disjoint.Set, n)
		copy(cp, *ds)
		target = &cp
	}
	reps := make([]int, n)
	// deepest elements first: lookups in index order compress the ancestors of deep
	// elements before those are asked, which would hide a wrong answer for a long path
	order := make([]int, n)
	dep := make([]int, n)
	for i := range order {
		order[i] = i
		dep[i] = depth(*target, i)
	}
	sort.SliceStable(order, func(a, b int) bool { return dep[order[a]] > dep[order[b]] })
	for _, i := range order {
		i := i
		r.Must(fmt.Sprintf("Find(%d)", i), budget(n), func() { reps[i] = target.Find(i) })
		if reps[i] < 0 || reps[i] >= n {
			r.Fail("representative", "Find out of range", "after %s: Find(%d) = %d, not an element of 0..%d", after, i, reps[i], n-1)
		}
	}
	repOfLabel := map[int]int{}
	labelOfRep := map[int]int{}
	for i := 0; i < n; i++ {
		l := m.label[i]
		if rp, ok := repOfLabel[l]; ok && rp != reps[i] {
			r.Fail("partition", "connected elements have different representatives", "after %s: %d and another element of its set have representatives %d and %d (model sets %v)", after, i, reps[i], rp, m.sets())
		}
		repOfLabel[l] = reps[i]
		if lb, ok := labelOfRep[reps[i]]; ok && lb != l {
			r.Fail("partition", "unconnected elements share a representative", "after %s: representative %d serves two different sets (element %d; model sets %v)", after, reps[i], i, m.sets())
		}
		labelOfRep[reps[i]] = l
		if m.label[reps[i]] != l {
			r.Fail("representative", "representative outside its set", "after %s: Find(%d) = %d which is in another set (model sets %v)", after, i, reps[i], m.sets())
		}
	}
	r.ObsInts(reps)
}

// checkFixedPoint: a representative represents itself. x and rep are connected, so they
// must have the same representative, i.e. Find(rep) == rep (evaluated on a copy so that the
// live structure is not disturbed).
func checkFixedPoint(r *driver.Run, ds *disjoint.Set, n, x, rep int, what string) {
	cp := make(disjoint.Set, len(*ds))
	copy(cp, *ds)
	var again int
	r.Must("Find(representative)", budget(n), func() { again = cp.Find(rep) })
	if again != rep {
		r.Fail("partition", "connected elements have different representatives", "%s = %d, but Find(%d) = %d: %d and %d are connected and have different representatives", what, rep, rep, again, x, rep)
	}
}

func eqSets(a, b [][]int) bool {
	if len(a) != len(b) {
		return false
	}
	for i := range a {
		if len(a[i]) != len(b[i]) {
			return false
		}
		for j := range a[i] {
			if a[i][j] != b[i][j] {
				return false
			}
		}
	}
	return true
}

var shortBufs bool
var sharedBuf []int // when non-nil: the caller reuses ONE buffer for all buffered calls (as the library's own callers do)

func mkbuf(r *driver.Run, n int) []int {
	if sharedBuf != nil {
		return sharedBuf
	}
	// capacity >= n in most runs; in 'short buffer' runs any capacity >= 1 (the
	// implementation grows the buffer as needed); arbitrary length and garbage contents
	c := n + r.T.Draw(3)
	if shortBufs {
		c = 1 + r.T.Draw(n+2)
	}
	if c < 1 {
		c = 1
	}
	b := make([]int, c)
	for i := range b {
		b[i] = -7 - i
	}
	return b[:r.T.Draw(c+1)]
}

var deepSizes = []int{4, 6, 8, 10, 12, 14, 17}

// runDeep: a perfectly balanced union-by-rank tree on 2^k elements (depth k, the
// deepest shape the structure can reach), then lookups and unions aimed at its deepest
// elements.
func runDeep(r *driver.Run, k int) {
	t := r.T
	n := 1 << uint(k)
	shortBufs = false
	sharedBuf = nil
	r.Logf("deep tree: n=2^%d=%d, balanced merges of equal-rank roots", k, n)
	var ds disjoint.Set
	r.Must("New", budget(n), func() { ds = disjoint.New(n) })
	m := newModel(n)
	flip := t.Draw(2)
	for step := 1; step < n; step *= 2 {
		for i := 0; i+step < n; i += 2 * step {
			// both arguments are roots at this point: no compression happens while building
			x, y := i, i+step
			if (i/step+flip)%2 == 1 {
				x, y = y, x
			}
			r.Must("Union", budget(n), func() { ds.Union(x, y) })
			m.union(x, y)
		}
	}
	maxD, deepest := 0, 0
	for i := 0; i < n; i++ {
		if d := depth(ds, i); d > maxD {
			maxD, deepest = d, i
		}
	}
	r.Logf("built: maximum depth %d at element %d", maxD, deepest)
	if maxD >= 3 {
		r.Probe("find-compresses-chain-of-3-or-more")
	}
	r.Count("deep_tree_max_depth_"+fmt.Sprint(maxD), 1)
	for op := 0; op < 6; op++ {
		x := deepest
		if op > 0 {
			// another deep element
			best := -1
			for tries := 0; tries < 64; tries++ {
				c := t.Draw(n)
				if best < 0 || depth(ds, c) > depth(ds, best) {
					best = c
				}
			}
			x = best
		}
		var got int
		var what string
		if op%2 == 0 {
			what = fmt.Sprintf("Find(%d) [depth %d]", x, depth(ds, x))
			r.Must(what, budget(n), func() { got = ds.Find(x) })
		} else {
			buf := mkbuf(r, n)
			what = fmt.Sprintf("FindBuffered(%d, buf[len %d cap %d]) [depth %d]", x, len(buf), cap(buf), depth(ds, x))
			r.Must(what, budget(n), func() { got = ds.FindBuffered(x, buf) })
		}
		r.Logf("%s = %d", what, got)
		if got < 0 || got >= n || m.label[got] != m.label[x] {
			r.Fail("representative", "representative outside its set", "%s = %d, which is not the representative of the set of %d (deep tree on %d elements)", what, got, x, n)
		}
		checkFixedPoint(r, &ds, n, x, got, what)
		checkPartition(r, &ds, m, op%3 == 2, what)
	}
	r.Nontrivial = maxD >= 3
	r.Obs(uint64(k), uint64(maxD))
}

func runOne(r *driver.Run) {
	if r.Case >= 0 {
		runDeep(r, deepSizes[r.Case%len(deepSizes)])
		return
	}
	t := r.T
	var n int
	switch t.Draw(4) {
	case 0:
		n = t.Range(1, 8)
	case 1:
		n = t.Range(1, 16)
	case 2:
		n = t.Range(1, 64)
	default:
		n = []int{1, 2, 3, 4, 8, 16, 32, 64}[t.Draw(8)]
	}
	if t.Chance(1, 40) {
		n = 0 // the empty structure: only the derived views can be asked
		r.Probe("empty-structure")
	}
	nops := t.Range(1, 80)
	// swarm: per-run operation mix
	w := []int{1 + t.Draw(8), 1 + t.Draw(8), t.Draw(6), t.Draw(6), t.Draw(3), t.Draw(3), t.Draw(3), t.Draw(3)}
	liveCheck := t.Draw(3) // 0: always on a copy, 1: always live, 2: tape decides each time
	pairing := t.Chance(1, 2)
	shortBufs = t.Chance(1, 3)
	sharedBuf = nil
	if !shortBufs && t.Chance(1, 2) {
		sharedBuf = make([]int, n+1) // zero-filled, then carries whatever earlier calls left in it
		r.Probe("one-buffer-reused-for-the-whole-history")
	}
	r.Logf("config n=%d ops=%d weights=%v liveCheck=%d pairing-phase=%v short-buffers=%v", n, nops, w, liveCheck, pairing, shortBufs)
	var ds disjoint.Set
	r.Must("New", budget(n), func() { ds = disjoint.New(n) })
	if len(ds) != n {
		r.Fail("new", "New length", "New(%d) has %d elements", n, len(ds))
	}
	m := newModel(n)
	checkPartition(r, &ds, m, false, "New")
	unions, deep := 0, 0
	if pairing && n >= 4 {
		// a phase that builds equal-rank trees and merges them: the shape that produces
		// chains of length >= 3 under union by rank
		for step := 1; step < n; step *= 2 {
			for i := 0; i+step < n; i += 2 * step {
				x, y := i, i+step
				if t.Chance(1, 2) {
					x, y = y, x
				}
				r.Logf("Union(%d,%d) [pairing phase]", x, y)
				r.Must("Union", budget(n), func() { ds.Union(x, y) })
				m.union(x, y)
				unions++
			}
			if t.Chance(1, 3) {
				break
			}
		}
		checkPartition(r, &ds, m, false, "pairing phase")
	}
	for op := 0; op < nops; op++ {
		k := t.Weighted(w)
		if n == 0 {
			k = 4 + t.Draw(4)
		}
		x, y := t.Draw(n), t.Draw(n)
		if (k == 2 || k == 3) && t.Chance(1, 2) {
			// aim lookups at the deepest element: that is where compression rewrites parents
			for i := 0; i < n; i++ {
				if depth(ds, i) > depth(ds, x) {
					x = i
				}
			}
		}
		var what string
		switch k {
		case 0:
			what = fmt.Sprintf("Union(%d,%d)", x, y)
			r.Must(what, budget(n), func() { ds.Union(x, y) })
			m.union(x, y)
			unions++
		case 1:
			buf := mkbuf(r, n)
			what = fmt.Sprintf("UnionBuffered(%d,%d,buf[len %d cap %d])", x, y, len(buf), cap(buf))
			r.Must(what, budget(n), func() { ds.UnionBuffered(x, y, buf) })
			m.union(x, y)
			unions++
		case 2, 3:
			d := depth(ds, x)
			if d >= 2 {
				deep++
				r.Probe("find-compresses-chain-of-3-or-more")
			}
			var got int
			if k == 2 {
				what = fmt.Sprintf("Find(%d) [depth %d]", x, d)
				r.Must(what, budget(n), func() { got = ds.Find(x) })
			} else {
				buf := mkbuf(r, n)
				what = fmt.Sprintf("FindBuffered(%d,buf[len %d cap %d]) [depth %d]", x, len(buf), cap(buf), d)
				r.Must(what, budget(n), func() { got = ds.FindBuffered(x, buf) })
			}
			if got < 0 || got >= n || m.label[got] != m.label[x] {
				r.Fail("representative", "representative outside its set", "%s = %d, which is not in the set of %d (model sets %v)", what, got, x, m.sets())
			}
			checkFixedPoint(r, &ds, n, x, got, what)
			r.Obs(uint64(got))
		case 4:
			what = "Sets()"
			var got [][]int
			r.Must(what, 8*budget(n), func() { got = ds.Sets() })
			want := m.sets()
			for _, s := range want {
				sort.Ints(s)
			}
			sort.Slice(want, func(i, j int) bool { return want[i][0] < want[j][0] })
			if !eqSets(got, want) {
				r.Fail("sets", "Sets differs from the partition", "Sets() = %v, want %v", got, want)
			}
			for _, s := range got { // derived views belong to the caller: scribbling must not reach the structure
				for i := range s {
					s[i] = -5
				}
			}
		case 5:
			what = "SmallestRep()"
			var got []int
			r.Must(what, 8*budget(n), func() { got = ds.SmallestRep() })
			if len(got) != n {
				r.Fail("smallestrep", "SmallestRep length", "SmallestRep() has %d entries for n=%d", len(got), n)
			}
			for i := 0; i < n; i++ {
				min := i
				for j := 0; j < i; j++ {
					if m.label[j] == m.label[i] {
						min = j
						break
					}
				}
				if got[i] != min {
					r.Fail("smallestrep", "SmallestRep differs from the partition", "SmallestRep()[%d] = %d, want %d (model sets %v)", i, got[i], min, m.sets())
				}
			}
		case 6:
			what = "Roots()"
			var got []int
			r.Must(what, budget(n), func() { got = ds.Roots() })
			seen := map[int]bool{}
			for _, rt := range got {
				if rt < 0 || rt >= n || seen[m.label[rt]] {
					r.Fail("roots", "Roots is not one element per set", "Roots() = %v (model sets %v)", got, m.sets())
				}
				seen[m.label[rt]] = true
			}
			if len(got) != len(m.sets()) {
				r.Fail("roots", "Roots is not one element per set", "Roots() = %v has %d entries, there are %d sets %v", got, len(got), len(m.sets()), m.sets())
			}
			for i := range got {
				got[i] = -5
			}
		case 7:
			what = "String()"
			var s string
			r.Must(what, 8*budget(n), func() { s = ds.String() })
			r.ObsStr(s)
		}
		r.Logf("%s", what)
		live := liveCheck == 1 || (liveCheck == 2 && t.Chance(1, 2))
		checkPartition(r, &ds, m, live, what)
	}
	r.Count("ops", int64(nops))
	r.Count("unions", int64(unions))
	r.Nontrivial = unions >= 2 && deep >= 1
}

func main() {
	driver.Main(&driver.Spec{
		Property: "C18",
		Engine:   "dsu-ops",
		Level:    "exploration",
		Rule: "enumerated cases: perfectly balanced union-by-rank trees on 2^k elements for k in {4,6,8,10,12,14,17} (depth k, the deepest shape reachable) followed by lookups aimed at the deepest elements; random case: one seeded history (n <= 64, up to 80 operations after an optional pairing phase, per-run operation mix) on one disjoint.Set; after EVERY operation all n representatives are recomputed (on a copy or on the live value, tape's choice) and must induce exactly the model's partition. " +
			"Non-trivial = at least two unions and at least one Find/FindBuffered issued on an element at parent-depth >= 2 (a chain of >= 3 nodes, the only shape path compression rewrites); distinct = distinct fingerprints of the observed representative vectors.",
		Assumptions: []string{
			"buffers passed to the *Buffered methods have capacity >= n in two thirds of the runs and any capacity >= 1 in the others (arbitrary length and contents)",
			"elements passed are in 0..n-1",
			"no fault or schedule exists in this code: the simulator contributes seeded histories, the lock-step model, logical step budgets (a parent cycle is a violation, not a hang), minimisation and replay",
		},
		Real:  []string{"disjoint.Set (all methods)"},
		Stubs: []string{"none (the model is an oracle, not a stub)"},
		Plan: func(tier string) driver.Plan {
			if tier == "thorough" {
				return driver.Plan{Enum: len(deepSizes), Random: 3000000, WallLimit: 20 * time.Minute}
			}
			return driver.Plan{Enum: len(deepSizes), Random: 300000, WallLimit: 5 * time.Minute}
		},
		RunOne: runOne,
	})
}
