// Engine dawg-build (C12): seeded Add histories (with rejected additions, buffer reuse,
// three ways of starting a builder) against a sorted-set model and an independent
// minimal-DFA state count.
package main

import (
	"fmt"
	"sort"
	"strings"
	"time"

	"github.com/Tom-Johnston/mamba/dawg"
	"mambasim/driver"
)

const budget = 200_000_000

// minimalStates builds the trie of words and merges states with equal right
// languages bottom-up; the number of classes is the size of the minimal DFA
// (without a dead state), the root counted even for the empty set.
func minimalStates(words []string) int {
	type node struct {
		final bool
		next  map[byte]*node
	}
	root := &node{next: map[byte]*node{}}
	for _, w := range words {
		cur := root
		for i := 0; i < len(w); i++ {
			nx := cur.next[w[i]]
			if nx == nil {
				nx = &node{next: map[byte]*node{}}
				cur.next[w[i]] = nx
			}
			cur = nx
		}
		cur.final = true
	}
	classes := map[string]int{}
	var sig func(n *node) int
	sig = func(n *node) int {
		labels := make([]int, 0, len(n.next))
		for b := range n.next {
			labels = append(labels, int(b))
		}
		sort.Ints(labels)
		var sb strings.Builder
		if n.final {
			sb.WriteString("F")
		} else {
			sb.WriteString("N")
		}
		for _, b := range labels {
			fmt.Fprintf(&sb, "|%d:%d", b, sig(n.next[byte(b)]))
		}
		k := sb.String()
		if id, ok := classes[k]; ok {
			return id
		}
		id := len(classes)
		classes[k] = id
		return id
	}
	sig(root)
	return len(classes)
}

func q(b []byte) string { return fmt.Sprintf("%q", string(b)) }

// genWords draws a word set shaped to share prefixes and suffixes.
func genWords(r *driver.Run) []string {
	t := r.T
	alpha := []int{1, 2, 3, 4, 26, 256, 10, 5}[t.Draw(8)]
	letter := func() byte {
		switch alpha {
		case 256:
			return byte(t.Draw(256))
		case 26:
			return byte('a' + t.Draw(26))
		case 10: // digits (labels that read like numbers in any textual signature)
			return byte('0' + t.Draw(10))
		case 5: // digits and separators
			return []byte{'0', '1', '2', ',', ':'}[t.Draw(5)]
		default:
			return []byte{'a', 'b', 0x00, 0xff}[t.Draw(alpha)]
		}
	}
	long := t.Chance(1, 10) // long words with long shared prefixes
	lmul := 1
	if long {
		lmul = 8
		if t.Chance(1, 4) {
			lmul = 40 // chains of more than 64 nodes below a branching node
		}
		r.Probe("long-words")
	}
	word := func(max int) string {
		l := t.Draw(max*lmul + 1)
		b := make([]byte, l)
		for i := range b {
			b[i] = letter()
		}
		return string(b)
	}
	np, ns := 1+t.Draw(4), 1+t.Draw(4)
	pre := make([]string, np)
	suf := make([]string, ns)
	for i := range pre {
		pre[i] = word(3)
	}
	for i := range suf {
		suf[i] = word(3)
	}
	set := map[string]bool{}
	k := t.Draw(25)
	if t.Chance(1, 5) {
		k = 20 + t.Draw(70) // mid-size sets
	}
	if t.Chance(1, 12) {
		k = 60 + t.Draw(240) // occasionally a large set: long registers, wide nodes
		r.Probe("large-word-set")
	}
	if lmul > 8 && k > 12 {
		k = 12 // very long words: keep the set small (the builder's register scan is quadratic in the number of nodes)
	}
	for i := 0; i < k; i++ {
		switch t.Draw(4) {
		case 0:
			set[word(5)] = true
		case 1:
			set[pre[t.Draw(np)]+suf[t.Draw(ns)]] = true
		case 2:
			set[pre[t.Draw(np)]+word(2)+suf[t.Draw(ns)]] = true
		default: // a prefix of an existing word
			for w := range sortedKeys(set) {
				_ = w
				break
			}
			ks := sortedKeys(set)
			if len(ks) > 0 {
				w := ks[t.Draw(len(ks))]
				set[w[:t.Draw(len(w)+1)]] = true
			}
		}
	}
	if t.Chance(1, 4) {
		set[""] = true
	}
	r.Obs(uint64(alpha))
	return sortedKeys(set)
}

func sortedKeys(m map[string]bool) []string {
	ks := make([]string, 0, len(m))
	for k := range m {
		ks = append(ks, k)
	}
	sort.Strings(ks)
	return ks
}

func runOne(r *driver.Run) {
	t := r.T
	words := genWords(r)
	mode := t.Draw(4) // 0: New(list) 1: zero Builder 2: Initialise() 3: Initialise, add junk, Initialise again
	reuse := t.Chance(1, 4)
	nilEmpty := t.Chance(1, 2)
	rejectRate := []int{0, 0, 1, 3}[t.Draw(4)]
	r.Logf("config: %d words, mode=%d reuse-buffer=%v empty-word-as-nil=%v reject-rate=%d/8", len(words), mode, reuse, nilEmpty, rejectRate)
	var d *dawg.Dawg
	accepted := []string{}
	rejected := 0
	if mode == 0 && len(words) >= 2 && t.Chance(1, 4) {
		// New with a list that is NOT strictly increasing (one word moved or repeated) must fail
		bad := make([][]byte, 0, len(words)+1)
		for _, w := range words {
			bad = append(bad, []byte(w))
		}
		i := t.Draw(len(words))
		if t.Chance(1, 2) {
			bad = append(bad[:i+1], bad[i:]...) // duplicate words[i]
		} else {
			j := t.Draw(len(words))
			if i == j {
				j = (i + 1) % len(words)
			}
			bad[i], bad[j] = bad[j], bad[i]
		}
		var err error
		var dd *dawg.Dawg
		r.Must("dawg.New", budget, func() { dd, err = dawg.New(bad) })
		r.Logf("New(list that is not strictly increasing) -> err=%v", err)
		r.Fault("rejected-list")
		if err == nil {
			r.Fail("invalid-accepted", "New", "New accepted a list that is not strictly increasing (%d words, position %d disturbed) and returned a Dawg with %d words", len(bad), i, dd.NumberOfWords())
		}
	}
	if mode == 0 {
		list := make([][]byte, len(words))
		for i, w := range words {
			list[i] = []byte(w)
			if w == "" && nilEmpty {
				list[i] = nil
			}
		}
		var err error
		r.Must("dawg.New", budget, func() { d, err = dawg.New(list) })
		r.Logf("New(%d words %v) -> err=%v", len(words), clipWords(words), err)
		if err != nil {
			r.Fail("valid-rejected", "New", "New of a strictly increasing list %v failed: %v", clipWords(words), err)
		}
		accepted = words
	} else {
		b := new(dawg.Builder)
		if mode >= 2 {
			r.Must("Initialise", budget, func() { b.Initialise() })
		}
		if mode == 3 {
			// a builder that is initialised again must forget what it held
			junk := []string{"a", "ab", "zz"}
			for _, w := range junk {
				w := w
				r.Must("Add", budget, func() { b.Add([]byte(w)) })
			}
			r.Must("Initialise", budget, func() { b.Initialise() })
			r.Logf("Initialise(); Add a, ab, zz; Initialise() again")
			r.Probe("builder-reinitialised")
		}
		buf := make([]byte, 0, 16)
		arg := func(w string) []byte {
			if w == "" && nilEmpty {
				return nil
			}
			if reuse {
				buf = append(buf[:0], w...)
				return buf
			}
			return []byte(w)
		}
		last, have := "", false
		add := func(w string, note string) {
			var err error
			a := arg(w)
			r.Must("Add", budget, func() { err = b.Add(a) })
			legal := !have || w > last
			r.Logf("Add(%s)%s -> err=%v (model: %s)", q([]byte(w)), note, err, map[bool]string{true: "accept", false: "reject"}[legal])
			if legal && err != nil {
				cls := "valid-rejected"
				if reuse {
					cls = "valid-rejected-with-reused-buffer"
				}
				r.Fail(cls, "Add", "Add(%s) after %s is in order but was rejected: %v (accepted so far %v)", q([]byte(w)), lastDesc(have, last), err, clipWords(accepted))
			}
			if !legal && err == nil {
				r.Fail("invalid-accepted", "Add", "Add(%s) after %s is not strictly greater but was accepted (accepted so far %v)", q([]byte(w)), lastDesc(have, last), clipWords(accepted))
			}
			if legal {
				accepted = append(accepted, w)
				last, have = w, true
			} else {
				rejected++
				r.Fault("rejected-add")
			}
		}
		for i, w := range words {
			add(w, "")
			for rejectRate > 0 && t.Chance(rejectRate, 8) {
				// an addition that must be rejected: a duplicate of the last word, an earlier word, or a smaller neighbour
				switch t.Draw(3) {
				case 0:
					add(w, " [duplicate]")
				case 1:
					add(words[t.Draw(i+1)], " [earlier word]")
				default:
					if len(w) > 0 {
						add(w[:len(w)-1], " [proper prefix of the last word]")
					} else {
						add("", " [duplicate empty word]")
					}
				}
			}
		}
		var err error
		r.Must("Finish", budget, func() { d, err = b.Finish() })
		r.Logf("Finish() -> err=%v", err)
		if err != nil {
			r.Fail("finish-error", "Finish", "Finish failed: %v", err)
		}
	}
	if d == nil {
		r.Fail("finish-error", "nil Dawg", "no Dawg returned")
	}
	if len(accepted) == 0 {
		r.Probe("empty-word-set")
	}
	if len(accepted) > 0 && accepted[0] == "" {
		r.Probe("contains-empty-word")
	}
	// --- observers against the model
	var nw int
	r.Must("NumberOfWords", budget, func() { nw = d.NumberOfWords() })
	if nw != len(accepted) {
		r.Fail("NumberOfWords", "NumberOfWords", "NumberOfWords() = %d, %d words were accepted: %v", nw, len(accepted), clipWords(accepted))
	}
	member := map[string]int{}
	for i, w := range accepted {
		member[w] = i
	}
	probe := func(p string) {
		var idx int
		var ok bool
		r.Must("Lookup", budget, func() { idx, ok = d.Lookup([]byte(p)) })
		want, in := member[p]
		if ok != in {
			r.Fail("Lookup-membership", "Lookup", "Lookup(%s) = (%d,%v) but membership is %v; words %v", q([]byte(p)), idx, ok, in, clipWords(accepted))
		}
		if in && idx != want {
			r.Fail("Lookup-rank", "Lookup", "Lookup(%s) = %d, its rank is %d; words %v", q([]byte(p)), idx, want, clipWords(accepted))
		}
		r.Obs(uint64(idx), b2u(ok))
	}
	for _, w := range accepted {
		probe(w)
		for i := 0; i < len(w); i++ {
			probe(w[:i])
			probe(w[:i] + string([]byte{w[i] + 1}) + w[i+1:])
		}
		probe(w + "a")
		probe(w + "\x00")
		probe(w + string([]byte{byte(t.Draw(256))}))
	}
	probe("")
	for i := 0; i < 5; i++ {
		l := t.Draw(5)
		b := make([]byte, l)
		for j := range b {
			b[j] = byte(t.Draw(256))
		}
		probe(string(b))
	}
	// --- a Dawg handed to the caller must not change when another one is built afterwards
	if t.Chance(1, 3) {
		other := []string{"a", "ab", "b", "ba", "bab", "c"}
		var d2 *dawg.Dawg
		r.Must("dawg.New(second set)", budget, func() {
			l := make([][]byte, len(other))
			for i, w := range other {
				l[i] = []byte(w)
			}
			d2, _ = dawg.New(l)
		})
		if d2 != nil {
			var n2 int
			r.Must("NumberOfWords(second)", budget, func() { n2 = d2.NumberOfWords() })
			if n2 != len(other) {
				r.Fail("NumberOfWords", "second Dawg", "a second Dawg built afterwards from %v reports %d words", other, n2)
			}
		}
		var again int
		r.Must("NumberOfWords", budget, func() { again = d.NumberOfWords() })
		if again != len(accepted) {
			r.Fail("earlier-result-corrupted", "Dawg changed by a later build", "after building a second Dawg the first reports %d words, it has %d", again, len(accepted))
		}
		for _, w := range accepted {
			probe(w)
		}
		r.Probe("first-dawg-rechecked-after-building-a-second")
	}
	// --- structure through the verif-tagged accessor
	var nodes []dawg.VerifNode
	r.Must("VerifNodes", budget, func() { nodes = dawg.VerifNodes(d) })
	want := minimalStates(accepted)
	if len(nodes) != want {
		r.Fail("minimality", "node count", "the automaton has %d nodes, the minimal one has %d; words %v", len(nodes), want, clipWords(accepted))
	}
	// the language of the automaton, enumerated (bounded), must be exactly the word list
	var lang []string
	var walk func(i int, pre []byte, depth int)
	walk = func(i int, pre []byte, depth int) {
		if len(lang) > len(accepted)+2 || depth > 400 {
			return
		}
		if nodes[i].Final {
			lang = append(lang, string(pre))
		}
		for j, l := range nodes[i].Labels {
			walk(nodes[i].Links[j], append(pre, l), depth+1)
		}
	}
	walk(0, nil, 0)
	ls := append([]string(nil), lang...)
	sort.Strings(ls)
	if strings.Join(quoteAll(ls), ",") != strings.Join(quoteAll(accepted), ",") {
		r.Fail("language", "accepted language", "the automaton accepts %v, the accepted words are %v", clipWords(ls), clipWords(accepted))
	}
	r.Obs(uint64(len(nodes)), uint64(nw))
	r.Count("words", int64(len(accepted)))
	r.Nontrivial = len(accepted) >= 3 && len(nodes) < trieSize(accepted)
}

func trieSize(words []string) int {
	pre := map[string]bool{"": true}
	for _, w := range words {
		for i := 1; i <= len(w); i++ {
			pre[w[:i]] = true
		}
	}
	return len(pre)
}

func quoteAll(ws []string) []string {
	out := make([]string, len(ws))
	for i, w := range ws {
		out[i] = fmt.Sprintf("%q", w)
	}
	return out
}

func b2u(b bool) uint64 {
	if b {
		return 1
	}
	return 0
}

func lastDesc(have bool, last string) string {
	if !have {
		return "nothing"
	}
	return q([]byte(last))
}

func clipWords(ws []string) string {
	qs := quoteAll(ws)
	if len(qs) > 14 {
		return "[" + strings.Join(qs[:14], " ") + fmt.Sprintf(" … %d words]", len(qs))
	}
	return "[" + strings.Join(qs, " ") + "]"
}

func main() {
	driver.Main(&driver.Spec{
		Property: "C12",
		Engine:   "dawg-build",
		Level:    "exploration",
		Rule: "a case is one seeded build history: a word set (<= 25 draws over alphabets of 1, 2, 3, 4, 26 or 256 letters incl. 0x00/0xFF, digits, digits+separators, shaped from shared prefix and suffix pools, words that are prefixes of others, optionally the empty word as nil or []byte{}) added through New, a zero Builder, Initialise, or a re-initialised Builder, with rejected additions (duplicate, earlier word, proper prefix) interleaved at a per-run rate and optionally one reused argument buffer. " +
			"Every Add's error must match the model; after Finish: NumberOfWords, Lookup of every member, every proper prefix, one-byte substitutions and extensions and tape strings, the node count against an independently computed minimal DFA, and the enumerated language of the automaton. Non-trivial = at least 3 accepted words and at least one shared suffix state (fewer nodes than the trie); distinct = distinct fingerprints of the observed lookups and node counts.",
		Assumptions: []string{
			"words are at most 8 bytes (one run in 10: up to 64 bytes, one in 40: up to 320 bytes, with long shared prefixes and suffixes); sets have at most 25 words (one run in 5: 20-90, one in 12: 60-300 draws)",
			"the automaton is read through the verif-tagged accessor dawg.VerifNodes (add-only file in /repo, build tag verif)",
			"no schedule or I/O exists in this code: the simulator contributes seeded histories with rejected operations, the lock-step model, minimisation and replay",
		},
		Real:  []string{"dawg.New", "dawg.Builder (Initialise, Add, Finish)", "(*Dawg).Lookup", "(*Dawg).NumberOfWords"},
		Stubs: []string{"none"},
		Plan: func(tier string) driver.Plan {
			if tier == "thorough" {
				return driver.Plan{Random: 1500000, WallLimit: 25 * time.Minute}
			}
			return driver.Plan{Random: 600000, WallLimit: 5 * time.Minute}
		},
		RunOne: runOne,
	})
}
