// Engine sched (C19): 2-6 tasks, each working on its own value or only reading a
// shared one, run as goroutines under the deterministic scheduler (package sched) over
// a build of the library with generated yield points, with the Go race detector as
// happens-before monitor. Oracles: every task's result equals its solo result on
// freshly built identical values; no race report; shared values unchanged; a complete
// shard set still partitions the isomorphism classes.
package main

import (
	"bytes"
	"encoding/json"
	"fmt"
	"os"
	"os/exec"
	"regexp"
	"sort"
	"strconv"
	"strings"
	"time"

	"github.com/Tom-Johnston/mamba/comb"
	"github.com/Tom-Johnston/mamba/dawg"
	"github.com/Tom-Johnston/mamba/disjoint"
	"github.com/Tom-Johnston/mamba/graph"
	"github.com/Tom-Johnston/mamba/graph/search"
	"github.com/Tom-Johnston/mamba/ints"
	"github.com/Tom-Johnston/mamba/itertools"
	"github.com/Tom-Johnston/mamba/sortints"
	"github.com/Tom-Johnston/mamba/tsp"
	"mambasim/driver"
	"mambasim/gutil"
	"mambasim/model"
	"mambasim/sched"
	"mambasim/tape"
)

// ---- per-task result recorder (task-local; read by main after the run) ----------------

type Rec struct {
	h     uint64
	n     int
	first []string
	codes []model.Code // shards: canonical codes of what was yielded
}

func (r *Rec) add(s string) {
	r.h = tape.Mix(r.h, tape.HashString(s))
	r.n++
	if len(r.first) < 4 {
		r.first = append(r.first, s)
	}
}
func (r *Rec) ints(tag string, v []int) {
	var b []byte
	b = append(b, tag...)
	for _, x := range v {
		b = append(b, ' ')
		b = strconv.AppendInt(b, int64(x), 10)
	}
	r.add(string(b))
}
func (r *Rec) num(tag string, v int) { r.add(tag + " " + strconv.Itoa(v)) }
func (r *Rec) boolean(tag string, v bool) {
	if v {
		r.add(tag + " true")
	} else {
		r.add(tag + " false")
	}
}

// ---- scenario description (all drawn from the tape before anything runs) -----------------

const (
	kShard = iota
	kLabeller
	kIterator
	kComb
	kDawgQuery
	kDawgBuild
	kObserver
	kCliqueProducer
	kCliqueConsumer
	kSets
	kDSU
	kTSP
	kForkHalf
	kEncoders
	kSort
	kGenerators
	kEditor
	kCodecs
	kCopyEditor
	numKinds
)

var kindNames = []string{"shard", "labeller", "iterator", "comb", "dawg-query", "dawg-build", "observer", "clique-producer", "clique-consumer", "sets", "dsu", "tsp", "fork-half", "encoders", "sort", "generators", "editor", "codecs", "copy-editor"}

type spec struct {
	kind int
	p    [6]int
}

type worldParams struct {
	gn, gseed, gden int
	words           int
	wseed           int
	forkN, forkA    int
	forkM, forkK    int
	forkPred        int
	chanCap         [sched.MaxTasks]int
}

type world struct {
	dense    *graph.DenseGraph
	sparse   *graph.SparseGraph
	compl    graph.Graph
	induced  graph.Graph
	dawg     *dawg.Dawg
	wordList [][]byte
	sets     []sortints.SortedInts
	chans    [sched.MaxTasks]chan []int
	forkA    *search.GraphIterator
	forkB    *search.GraphIterator
}

func rng(seed int) *tape.SplitMix64 {
	return &tape.SplitMix64{S: uint64(seed)*0x9e3779b97f4a7c15 + 12345}
}

func randomModel(n, seed, den int) *model.G {
	r := rng(seed)
	g := model.NewG(n)
	for j := 0; j < n; j++ {
		for i := 0; i < j; i++ {
			if int(r.Next()%8) < den {
				g.Add(i, j)
			}
		}
	}
	return g
}

func denseOf(g *model.G) *graph.DenseGraph {
	d := graph.NewDense(g.N, nil)
	for j := 0; j < g.N; j++ {
		for i := 0; i < j; i++ {
			if g.Has(i, j) {
				d.AddEdge(i, j)
			}
		}
	}
	return d
}

func sparseOf(g *model.G) *graph.SparseGraph {
	s := graph.NewSparse(g.N, nil)
	for j := 0; j < g.N; j++ {
		for i := 0; i < j; i++ {
			if g.Has(i, j) {
				s.AddEdge(i, j)
			}
		}
	}
	return s
}

func wordsOf(count, seed int) [][]byte {
	r := rng(seed)
	set := map[string]bool{}
	for i := 0; i < count; i++ {
		l := 1 + int(r.Next()%5)
		b := make([]byte, l)
		for j := range b {
			b[j] = byte('a' + r.Next()%4)
		}
		set[string(b)] = true
	}
	ks := make([]string, 0, len(set))
	for k := range set {
		ks = append(ks, k)
	}
	sort.Strings(ks)
	out := make([][]byte, len(ks))
	for i, k := range ks {
		out[i] = []byte(k)
	}
	return out
}

func triangleFreePrune(g *graph.DenseGraph) bool { return !model.TriangleFree(gutil.ToModel(g)) }
func never(g *graph.DenseGraph) bool             { return false }

func predFuncs(p int) (func(*graph.DenseGraph) bool, func(*graph.DenseGraph) bool) {
	switch p {
	case 1:
		return triangleFreePrune, never
	case 2:
		return never, triangleFreePrune
	}
	return never, never
}

// buildWorld constructs fresh shared values. If the tree under test cannot even build
// them sequentially (a panic in a constructor), that is not this property's business:
// it returns nil and the run is skipped.
func buildWorld(wp worldParams) (w *world) {
	defer func() {
		if p := recover(); p != nil {
			w = nil
		}
	}()
	return buildWorldUnsafe(wp)
}

func buildWorldUnsafe(wp worldParams) *world {
	w := &world{}
	mg := randomModel(wp.gn, wp.gseed, wp.gden)
	w.dense = denseOf(mg)
	w.sparse = sparseOf(mg)
	w.compl = graph.Complement(w.dense)
	V := []int{}
	for v := wp.gn - 1; v >= 0; v -= 2 {
		V = append(V, v)
	}
	w.induced = graph.InducedSubgraph(w.sparse, V)
	w.wordList = wordsOf(wp.words, wp.wseed)
	d, err := dawg.New(w.wordList)
	if err != nil {
		panic(err)
	}
	w.dawg = d
	r := rng(wp.gseed + 7)
	for i := 0; i < 3; i++ {
		xs := make([]int, 3+int(r.Next()%6))
		for j := range xs {
			xs[j] = int(r.Next() % 20)
		}
		set := sortints.NewSortedInts(xs...)
		if i%2 == 1 {
			// a shared value with spare capacity behind it (filled with a pattern): a function
			// that uses the spare room of an argument as scratch writes to shared memory
			grown := make(sortints.SortedInts, len(set), len(set)+8)
			copy(grown, set)
			for j := len(set); j < cap(grown); j++ {
				grown[:cap(grown)][j] = -7000 - j
			}
			set = grown
		}
		w.sets = append(w.sets, set)
	}
	for i := range w.chans {
		w.chans[i] = make(chan []int, wp.chanCap[i])
	}
	if wp.forkN > 0 {
		pre, pru := predFuncs(wp.forkPred)
		w.forkA = search.WithPruning(wp.forkN, wp.forkA, wp.forkM, pre, pru)
		for i := 0; i < wp.forkK; i++ {
			if !w.forkA.Next() {
				break
			}
		}
		var buf bytes.Buffer
		w.forkA.Save(&buf)
		pre2, pru2 := predFuncs(wp.forkPred)
		w.forkB = search.Load(&buf, pre2, pru2)
	}
	return w
}

func snapshot(w *world) string {
	var b strings.Builder
	fmt.Fprintf(&b, "dense %d %d %v %v|", w.dense.NumberOfVertices, w.dense.NumberOfEdges, w.dense.DegreeSequence, w.dense.Edges)
	fmt.Fprintf(&b, "sparse %d %d %v %v|", w.sparse.NumberOfVertices, w.sparse.NumberOfEdges, w.sparse.DegreeSequence, w.sparse.Neighbourhoods)
	enc, err := w.dawg.GobEncode()
	fmt.Fprintf(&b, "dawg %x %v|sets %v|words %q|", enc, err, w.sets, w.wordList)
	for _, x := range w.sets {
		fmt.Fprintf(&b, "cap %v|", []int(x[:cap(x)]))
	}
	return b.String()
}

func sharedGraph(w *world, which int) graph.Graph {
	switch which % 4 {
	case 0:
		return w.dense
	case 1:
		return w.sparse
	case 2:
		return w.compl
	default:
		return w.induced
	}
}

func g6of(g graph.Graph) string { return gutil.G6(gutil.ToModel(g)) }

// makeTask returns the closure of one task over world w, recording into rec.
func makeTask(s spec, w *world, rec *Rec) func() {
	p := s.p
	switch s.kind {
	case kShard:
		n, a, m, pred, saveEvery := p[0], p[1], p[2], p[3], p[4]
		return func() {
			pre, pru := predFuncs(pred)
			it := search.WithPruning(n, a, m, pre, pru)
			k := 0
			for it.Next() {
				mg := gutil.ToModel(it.Value())
				rec.add(gutil.G6(mg))
				c, _ := model.Canon(mg)
				rec.codes = append(rec.codes, c)
				k++
				if saveEvery > 0 && k%saveEvery == 0 {
					// the shard checkpoints into its own buffer and carries on from the checkpoint
					var buf bytes.Buffer
					it.Save(&buf)
					rec.add(string(buf.Bytes()))
					pre2, pru2 := predFuncs(pred)
					it = search.Load(&buf, pre2, pru2)
				}
			}
			rec.boolean("again", it.Next())
		}
	case kLabeller:
		N, count, seed := p[0], p[1], p[2]
		return func() {
			st := graph.NewStorage(N, N*(N-1)/2)
			op := graph.NewOrderedPartition(N, N*(N-1)/2, nil)
			opts := new(graph.CanonicalOptions)
			r := rng(seed)
			for q := 0; q < count; q++ {
				n := 1 + int(r.Next()%uint64(N))
				mg := randomModel(n, int(r.Next()%1000), 1+int(r.Next()%7))
				if N > 20 {
					// a large independent set attached to three hubs: a cell of more than 20 vertices that
					// is shattered by multi-valued neighbour counts (the stable-sort path of the refinement)
					n = N
					mg = model.NewG(n)
					for v := 3; v < n; v++ {
						for h := 0; h < 3; h++ {
							if r.Next()%2 == 0 {
								mg.Add(h, v)
							}
						}
					}
					mg.Add(0, 1)
				}
				nb := make([][]int, n)
				for v := 0; v < n; v++ {
					nb[v] = []int{}
					for u := 0; u < n; u++ {
						if mg.Has(u, v) {
							nb[v] = append(nb[v], u)
						}
					}
				}
				op.Reset(n, mg.M(), nil)
				if r.Next()%3 == 0 && n >= 2 {
					opts.CheckViability = true
					opts.ViableBits = uint(r.Next()) & (1<<uint(n-1) - 1)
					if opts.ViableBits == 0 {
						opts.ViableBits = 1
					}
				}
				perm, orb, gens := graph.CanonicalIsomorphAllocated(n, mg.M(), nb, op, st, opts)
				if perm == nil {
					rec.add("not viable")
					continue
				}
				rec.ints("perm", perm)
				rec.ints("orbits", []int(orb))
				for _, g := range gens {
					rec.ints("gen", g)
				}
			}
		}
	case kIterator:
		which, a, b := p[0], p[1], p[2]
		return func() {
			limit := 3000
			switch which % 13 {
			case 0:
				x := itertools.Combinations(a+2, b%(a+3))
				for i := 0; i < limit && x.Next(); i++ {
					rec.ints("c", x.Value())
				}
			case 1:
				x := itertools.CombinationsColex(a+2, b%(a+3))
				for i := 0; i < limit && x.Next(); i++ {
					rec.ints("cc", x.Value())
				}
			case 2:
				x := itertools.MultisetCombinations([]int{1 + a%3, 2, 1 + b%2}, 1+b%4)
				for i := 0; i < limit && x.Next(); i++ {
					rec.ints("mc", x.Value())
					rec.ints("mf", x.FreqValue())
				}
			case 3:
				x := itertools.Partitions(2 + a%5)
				for i := 0; i < limit && x.Next(); i++ {
					for _, part := range x.Value() {
						rec.ints("p", part)
					}
				}
			case 4:
				x := itertools.IntegerPartitions(1 + a%12)
				for i := 0; i < limit && x.Next(); i++ {
					rec.ints("ip", x.Value())
				}
			case 5:
				x := itertools.Permutations(1 + a%6)
				for i := 0; i < limit && x.Next(); i++ {
					rec.ints("pm", x.Value())
				}
			case 6:
				x := itertools.LexicographicPermutations(1 + a%6)
				for i := 0; i < limit && x.Next(); i++ {
					rec.ints("lp", x.Value())
				}
			case 7:
				x := itertools.MultisetPermutations([]int{1 + a%3, 1 + b%3, 1})
				for i := 0; i < limit && x.Next(); i++ {
					rec.ints("mp", x.Value())
				}
			case 8:
				k := 2 + a%5
				x := itertools.TopologicalSorts(k, func(i, j int) bool { return i < j && (i+j+b)%3 == 0 })
				for i := 0; i < limit && x.Next(); i++ {
					rec.ints("ts", x.Value())
					rec.ints("ti", x.InverseValue())
				}
			case 9:
				x := itertools.RestrictedPrefixPermutations(2+a%5, func(pre []int) bool { return len(pre) < 2 || pre[len(pre)-1] != pre[len(pre)-2]+1 })
				for i := 0; i < limit && x.Next(); i++ {
					rec.ints("rp", x.Value())
				}
			case 10:
				x := itertools.PermutationsByPattern(2+a%4, func(pat []int) bool { return !(len(pat) == 3 && pat[0] < pat[1] && pat[1] < pat[2]) })
				for i := 0; i < limit && x.Next(); i++ {
					rec.ints("pp", x.Value())
				}
			case 11:
				x := itertools.Product(1+a%4, 2, 1+b%3)
				for i := 0; i < limit && x.Next(); i++ {
					rec.ints("pr", x.Value())
				}
			default:
				x := itertools.RestrictedPrefixProduct(func(pre []int) bool {
					s := 0
					for _, v := range pre {
						s += v
					}
					return s <= 3+b%3
				}, 2+a%3, 3, 2)
				for i := 0; i < limit && x.Next(); i++ {
					rec.ints("rpp", x.Value())
				}
			}
		}
	case kComb:
		seed, count := p[0], p[1]
		return func() {
			r := rng(seed)
			for i := 0; i < count; i++ {
				n := int(r.Next() % 40)
				k := int(r.Next() % 12)
				switch r.Next() % 5 {
				case 0:
					func() {
						defer func() {
							if recover() != nil {
								rec.add("coeff panic")
							}
						}()
						rec.num("coeff", comb.Coeff(n, k))
					}()
				case 1:
					func() {
						defer func() {
							if recover() != nil {
								rec.add("coeff64 panic")
							}
						}()
						rec.num("coeff64", int(comb.CoeffUint64(uint64(n), uint64(k))%1000003))
					}()
				case 2:
					for _, row := range comb.Coeffs(n % 30) {
						rec.ints("row", row)
					}
				case 3:
					c := []int{}
					x := 0
					for j := 0; j < 1+k%5; j++ {
						x += 1 + int(r.Next()%4)
						c = append(c, x)
					}
					rk := comb.Rank(c)
					rec.num("rank", rk)
					rec.ints("unrank", comb.Unrank(rk, len(c)))
				default:
					rec.ints("unrank", comb.Unrank(int(r.Next()%5000), 1+k%4))
				}
			}
		}
	case kDawgQuery:
		seed, count := p[0], p[1]
		return func() {
			r := rng(seed)
			rec.num("words", w.dawg.NumberOfWords())
			for i := 0; i < count; i++ {
				switch r.Next() % 5 {
				case 4:
					enc, err := w.dawg.GobEncode()
					rec.boolean("gobenc-err", err != nil)
					rec.add(string(enc))
				case 0, 1:
					var word []byte
					if len(w.wordList) > 0 && r.Next()%2 == 0 {
						word = w.wordList[r.Next()%uint64(len(w.wordList))]
					} else {
						word = make([]byte, 1+r.Next()%4)
						for j := range word {
							word[j] = byte('a' + r.Next()%5)
						}
					}
					idx, ok := w.dawg.Lookup(word)
					rec.num("lookup "+string(word), idx)
					rec.boolean("ok", ok)
				case 2:
					pat := make([]byte, 1+r.Next()%5)
					for j := range pat {
						if r.Next()%2 == 0 {
							pat[j] = '?'
						} else {
							pat[j] = byte('a' + r.Next()%4)
						}
					}
					sol, ids := w.dawg.Search(dawg.NewPatternSearcher(pat, '?'))
					for _, s := range sol {
						rec.add("pat " + string(pat) + " " + string(s))
					}
					rec.ints("ids", ids)
				default:
					an := make([]byte, 1+r.Next()%5)
					for j := range an {
						if r.Next()%4 == 0 {
							an[j] = '?'
						} else {
							an[j] = byte('a' + r.Next()%4)
						}
					}
					sol, ids := w.dawg.Search(dawg.NewAnagramSearcher(an, '?'), dawg.NewPatternSearcher(bytes.Repeat([]byte{'?'}, len(an)), '?'))
					for _, s := range sol {
						rec.add("ana " + string(an) + " " + string(s))
					}
					rec.ints("ids", ids)
				}
			}
		}
	case kDawgBuild:
		seed, count := p[0], p[1]
		return func() {
			ws := wordsOf(count, seed)
			b := new(dawg.Builder)
			if seed%3 == 0 {
				b.Initialise()
			}
			for _, x := range ws {
				if err := b.Add(x); err != nil {
					rec.add("add error " + string(x))
				}
			}
			d, err := b.Finish()
			if err != nil {
				rec.add("finish error")
				return
			}
			rec.num("words", d.NumberOfWords())
			for _, x := range ws {
				idx, ok := d.Lookup(x)
				rec.num("lookup "+string(x), idx)
				rec.boolean("ok", ok)
			}
			enc, _ := d.GobEncode()
			rec.add(string(enc))
		}
	case kObserver:
		which, op, reps, variant := p[0], p[1], p[2], p[3]
		return func() {
			g := sharedGraph(w, which)
			for rep := 0; rep < 1+reps; rep++ {
				switch (op + rep) % 22 {
				case 18:
					// a query with an argument besides the shared graph: concurrent tasks ask
					// different questions about the same value
					ok, col := graph.IsKColorable(g, 1+variant)
					rec.boolean("kcol", ok)
					rec.ints("col", col)
					if ok {
						rec.boolean("proper", graph.IsProperColouring(g, col))
					}
				case 19:
					rec.add(string(graph.MulticodeEncode(g)))
					rec.add(graph.AdjacencyMatrixEncode(g))
					if g.N() > 0 {
						rec.ints("comp", graph.ConnectedComponent(g, variant%g.N()))
					}
				case 20:
					// fresh views of the shared graph, one per task
					var V []int
					for v := variant % 2; v < g.N(); v += 1 + variant/2 {
						V = append(V, v)
					}
					for _, h := range []graph.Graph{graph.InducedSubgraph(g, V), graph.Complement(g)} {
						rec.num("N", h.N())
						rec.num("M", h.M())
						rec.ints("deg", h.Degrees())
						for v := 0; v < h.N(); v++ {
							rec.ints("nb", h.Neighbours(v))
						}
					}
				case 21:
					rec.add(graph.Graph6Encode(graph.ComplementDense(g)))
					if g.M() <= 16 {
						rec.add(graph.Graph6Encode(graph.LineGraphDense(g)))
					}
				case 16:
					// these take an EditableGraph but are read-only queries (they work on copies)
					if eg, ok := g.(graph.EditableGraph); ok && g.N() <= 8 && g.M() <= 12 {
						rec.ints("chrompoly", graph.ChromaticPolynomial(eg))
					} else {
						rec.num("M", g.M())
					}
				case 17:
					if eg, ok := g.(graph.EditableGraph); ok {
						rec.ints("cycles", graph.NumberOfCycles(eg))
					} else {
						rec.num("N", g.N())
					}
				case 0:
					rec.num("N", g.N())
					rec.num("M", g.M())
					rec.ints("deg", g.Degrees())
					for v := 0; v < g.N(); v++ {
						rec.ints("nb", g.Neighbours(v))
						for u := 0; u < g.N(); u++ {
							rec.boolean("e", g.IsEdge(u, v))
						}
					}
				case 1:
					rec.num("clique", graph.CliqueNumber(g))
				case 2:
					c, col := graph.ChromaticNumber(g)
					rec.num("chi", c)
					rec.ints("col", col)
				case 3:
					rec.num("girth", graph.Girth(g))
					rec.num("diam", graph.Diameter(g))
					rec.num("rad", graph.Radius(g))
					rec.ints("ecc", graph.Eccentricity(g))
				case 4:
					for _, c := range graph.ConnectedComponents(g) {
						rec.ints("cc", c)
					}
					bl, art := graph.BiconnectedComponents(g)
					for _, b := range bl {
						rec.ints("block", b)
					}
					rec.ints("art", art)
				case 5:
					rec.boolean("planar", graph.IsPlanar(g))
				case 6:
					rec.ints("canon", graph.CanonicalIsomorph(g))
				case 7:
					d, ord := graph.Degeneracy(g)
					rec.num("degen", d)
					rec.ints("order", ord)
				case 8:
					rec.ints("ipaths", graph.NumberOfInducedPaths(g, 3+variant))
					rec.ints("icycles", graph.NumberOfInducedCycles(g, 4+variant))
				case 9:
					rec.num("alpha", graph.IndependenceNumber(g))
				case 10:
					rec.add(graph.Graph6Encode(g))
					rec.add(graph.Sparse6Encode(g))
				case 11:
					rec.num("maxdeg", graph.MaxDegree(g))
					rec.num("mindeg", graph.MinDegree(g))
					if g.N() > 1 {
						rec.num("dist", graph.Distance(g, variant%g.N(), g.N()-1-variant%g.N()))
					}
				case 12:
					perm, orb, gens := graph.CanonicalIsomorphFull(g, nil)
					rec.ints("perm", perm)
					rec.ints("orb", []int(orb))
					for _, x := range gens {
						rec.ints("gen", x)
					}
				case 13:
					ord := make([]int, g.N())
					for i := range ord {
						ord[i] = (i*3 + 1 + variant) % g.N()
					}
					seen := map[int]bool{}
					ok := true
					for _, v := range ord {
						if seen[v] {
							ok = false
						}
						seen[v] = true
					}
					if !ok {
						for i := range ord {
							ord[i] = i
						}
					}
					k, col := graph.GreedyColor(g, ord)
					rec.num("greedy", k)
					rec.ints("col", col)
				case 14:
					rec.ints("cliq", graph.RandomMaximalClique(g, int64(op+variant)))
					rec.boolean("equal", graph.Equal(g, g))
				default:
					if g.M() <= 12 { // edge colouring is exponential; keep the task cheap
						ci, _ := graph.ChromaticIndex(g)
						rec.num("chi'", ci)
					} else {
						rec.num("M", g.M())
					}
				}
			}
		}
	case kCliqueProducer:
		which, ch := p[0], p[1]
		return func() { graph.AllMaximalCliques(sharedGraph(w, which), w.chans[ch]) }
	case kCliqueConsumer:
		ch := p[1]
		return func() {
			c := w.chans[ch]
			for {
				select {
				case cl, ok := <-c:
					if !ok {
						return
					}
					rec.ints("clique", cl)
				default:
					if !sched.Blocked() {
						// no scheduler: plain blocking receive
						cl, ok := <-c
						if !ok {
							return
						}
						rec.ints("clique", cl)
					}
				}
			}
		}
	case kSets:
		seed, count := p[0], p[1]
		return func() {
			r := rng(seed)
			own := sortints.NewSortedInts(1, 5, 9)
			for i := 0; i < count; i++ {
				a := w.sets[r.Next()%uint64(len(w.sets))]
				b := w.sets[r.Next()%uint64(len(w.sets))]
				switch r.Next() % 9 {
				case 0:
					rec.ints("union", sortints.Union(a, b))
				case 1:
					rec.ints("inter", sortints.Intersection(a, b))
				case 2:
					rec.ints("minus", sortints.SetMinus(a, b))
				case 3:
					rec.ints("xor", sortints.XOR(a, b))
				case 4:
					rec.ints("compl", sortints.Complement(20, a))
					rec.boolean("sub", sortints.ContainsSorted(a, b))
				case 5:
					own.Add(int(r.Next()%30), int(r.Next()%30))
					rec.ints("own", own)
				case 6:
					own.Remove(int(r.Next() % 30))
					rec.ints("own", own)
				case 7:
					own.Union(a)
					rec.ints("own", own)
				default:
					rec.num("isize", sortints.IntersectionSize(a, b))
					rec.boolean("has", sortints.ContainsSingle(a, int(r.Next()%20)))
					rec.ints("range", sortints.Range(int(r.Next()%5), 10+int(r.Next()%10), 1+int(r.Next()%3)))
				}
			}
		}
	case kDSU:
		seed, count := p[0], p[1]
		return func() {
			r := rng(seed)
			n := 4 + int(r.Next()%20)
			ds := disjoint.New(n)
			buf := make([]int, n)
			for i := 0; i < count; i++ {
				x, y := int(r.Next()%uint64(n)), int(r.Next()%uint64(n))
				switch r.Next() % 4 {
				case 0:
					ds.Union(x, y)
				case 1:
					ds.UnionBuffered(x, y, buf)
				case 2:
					rec.num("find", ds.Find(x))
				default:
					rec.num("findb", ds.FindBuffered(y, buf))
				}
				if seed%2 == 1 && r.Next()%4 == 0 {
					// the derived views, many short calls next to the long ones of other tasks
					switch r.Next() % 3 {
					case 0:
						rec.num("nsets", len(ds.Sets()))
					case 1:
						rec.ints("small", ds.SmallestRep())
					default:
						rec.ints("roots", ds.Roots())
					}
				}
			}
			for _, s := range ds.Sets() {
				rec.ints("set", s)
			}
			rec.ints("small", ds.SmallestRep())
			rec.ints("roots", ds.Roots())
			rec.add(ds.String())
		}
	case kTSP:
		n, seed := p[0], p[1]
		return func() {
			var buf bytes.Buffer
			err := tsp.LIB(&buf, n, func(i, j int) int { return (i*31+j*17+seed)%97 - 20 })
			rec.boolean("err", err != nil)
			rec.add(buf.String())
		}
	case kForkHalf:
		which := p[0]
		return func() {
			it := w.forkA
			if which == 1 {
				it = w.forkB
			}
			for it.Next() {
				rec.add(g6of(it.Value()))
			}
		}
	case kEncoders:
		which, reps := p[0], p[1]
		return func() {
			g := sharedGraph(w, which)
			for i := 0; i <= reps; i++ {
				s6 := graph.Sparse6Encode(g)
				g6 := graph.Graph6Encode(g)
				rec.add(s6)
				rec.add(g6)
				d, err := graph.Graph6Decode(g6)
				rec.boolean("g6err", err != nil)
				if err == nil {
					rec.boolean("same", graph.Equal(d, g))
				}
				mc := graph.MulticodeEncode(g)
				rec.add(string(mc))
			}
		}
	case kSort:
		seed, n := p[0], p[1]
		return func() {
			r := rng(seed)
			for rep := 0; rep < 3; rep++ {
				xs := make([]int, n)
				for i := range xs {
					xs[i] = int(r.Next() % 50)
					if n > 60 {
						xs[i] = int(r.Next() % 1000003)
					}
				}
				if rep == 2 && n >= 40 && n <= 60 {
					xs = gutil.QuicksortKiller(n * 8) // reaches the heapsort fallback
				}
				if n > 60 && rep > 0 {
					break // one large slice per task is enough
				}
				ints.Sort(xs)
				rec.ints("sorted", xs)
				rec.num("max", ints.Max(append(xs, 0)))
				rec.num("min", ints.Min(append(xs, 0)))
				rec.num("sum", ints.Sum(xs))
				ys := ints.Reverse(append([]int(nil), xs...))
				rec.ints("reversed", ys)
				rec.num("cmp", ints.Compare(xs, ys))
				rec.boolean("prefix", ints.HasPrefix(xs, ys[:len(ys)/2]))
			}
		}
	case kEditor:
		seed, count, sparse := p[0], p[1], p[2]
		return func() {
			r := rng(seed)
			var g graph.EditableGraph
			mg := randomModel(3+int(r.Next()%5), seed, 3)
			if sparse == 1 {
				g = sparseOf(mg)
			} else {
				g = denseOf(mg)
			}
			for i := 0; i < count; i++ {
				n := g.N()
				switch r.Next() % 8 {
				case 0:
					if n < 10 {
						var nb []int
						for v := 0; v < n; v++ {
							if r.Next()%2 == 0 {
								nb = append(nb, v)
							}
						}
						g.AddVertex(nb)
					}
				case 1:
					if n > 1 {
						g.RemoveVertex(int(r.Next() % uint64(n)))
					}
				case 2:
					if n > 0 {
						g.AddEdge(int(r.Next()%uint64(n)), int(r.Next()%uint64(n)))
					}
				case 3:
					if n > 0 {
						g.RemoveEdge(int(r.Next()%uint64(n)), int(r.Next()%uint64(n)))
					}
				case 4:
					g = g.Copy()
				case 5:
					V := []int{}
					for v := n - 1; v >= 0; v-- {
						if r.Next()%3 != 0 {
							V = append(V, v)
						}
					}
					g = g.InducedSubgraph(V)
				case 6:
					if n >= 2 && n < 10 {
						i, j := int(r.Next()%uint64(n)), int(r.Next()%uint64(n))
						if i != j && g.IsEdge(i, j) {
							graph.SplitEdge(g, i, j)
						}
					}
				default:
					if n >= 3 {
						i, j := int(r.Next()%uint64(n)), int(r.Next()%uint64(n))
						if i != j {
							graph.Contract(g, i, j)
						}
					}
				}
				rec.add(g6of(g))
				rec.ints("deg", g.Degrees())
			}
			rec.ints("cycles", graph.NumberOfCycles(g))
		}
	case kCopyEditor:
		// values derived from ONE shared parent: each task takes its own Copy / InducedSubgraph /
		// view of the shared graph and then works only on that
		seed, count, which := p[0], p[1], p[2]
		return func() {
			r := rng(seed)
			var src graph.EditableGraph = w.dense
			if which%2 == 1 {
				src = w.sparse
			}
			g := src.Copy()
			V := []int{}
			for v := 0; v < src.N(); v++ {
				if r.Next()%3 != 0 {
					V = append(V, v)
				}
			}
			view := graph.InducedSubgraph(src, V)
			sub := src.InducedSubgraph(V)
			for i := 0; i < count; i++ {
				n := g.N()
				switch r.Next() % 6 {
				case 0:
					if n > 0 {
						g.AddEdge(int(r.Next()%uint64(n)), int(r.Next()%uint64(n)))
					}
				case 1:
					if n > 0 {
						g.RemoveEdge(int(r.Next()%uint64(n)), int(r.Next()%uint64(n)))
					}
				case 2:
					if n > 2 {
						g.RemoveVertex(int(r.Next() % uint64(n)))
					}
				case 3:
					if n < 11 {
						g.AddVertex([]int{})
					}
				case 4:
					rec.ints("view-deg", view.Degrees())
					if view.N() > 0 {
						rec.ints("view-nb", view.Neighbours(int(r.Next()%uint64(view.N()))))
					}
				default:
					if sub.N() > 1 {
						sub.AddEdge(0, sub.N()-1)
					}
					rec.add(g6of(sub))
				}
				rec.add(g6of(g))
			}
			rec.ints("deg", g.Degrees())
			rec.num("clique", graph.CliqueNumber(g))
		}
	case kCodecs:
		seed, n := p[0], p[1]
		return func() {
			mg := randomModel(n, seed, 3)
			d := denseOf(mg)
			s6 := graph.Sparse6Encode(d)
			sp, err := graph.Sparse6Decode(s6)
			rec.boolean("s6err", err != nil)
			if err == nil {
				rec.add(g6of(sp))
			}
			mc := append(graph.MulticodeEncode(d), graph.MulticodeEncode(graph.Cycle(4))...)
			func() {
				defer func() {
					if recover() != nil {
						rec.add("multicode panic")
					}
				}()
				rec.add(g6of(graph.MulticodeDecode(graph.MulticodeEncode(graph.Path(n + 1)))))
				for _, h := range graph.MulticodeDecodeMultiple(mc) {
					rec.add(g6of(h))
				}
			}()
			tr := graph.RandomTree(n+2, int64(seed))
			code := graph.PruferEncode(tr)
			rec.ints("prufer", code)
			rec.add(g6of(graph.PruferDecode(code)))
			rec.add(graph.AdjacencyMatrixEncode(d))
			dw, _ := dawg.New(wordsOf(10+n, seed))
			enc, _ := dw.GobEncode()
			var back dawg.Dawg
			rec.boolean("gobdecode", back.GobDecode(enc) == nil)
			rec.num("words", back.NumberOfWords())
			it := search.All(4, 0, 1)
			it.Next()
			it.Next()
			var buf bytes.Buffer
			it.Save(&buf)
			it2 := search.Load(&buf, never, never)
			for it2.Next() {
				rec.add(g6of(it2.Value()))
			}
			ok, col := graph.IsKColorable(d, 3)
			rec.boolean("3col", ok)
			if ok {
				rec.boolean("proper", graph.IsProperColouring(d, col))
			}
			if n > 0 {
				rec.ints("comp", graph.ConnectedComponent(d, 0))
			}
			a, b := []int{1, 2, 3}, []int{n, seed % 7, 5}
			ints.Add(a, b)
			rec.ints("add", a)
		}
	default: // kGenerators
		seed, n := p[0], p[1]
		return func() {
			rec.add(g6of(graph.KneserGraph(4+n%2, 2)))
			rec.add(g6of(graph.BipartiteKneserGraph(4, 1+n%2)))
			rec.add(g6of(graph.HypercubeGraph(1 + n%3)))
			rec.add(g6of(graph.FoldedHypercubeGraph(2 + n%2)))
			rec.add(g6of(graph.RookGraph(2, 2+n%2)))
			rec.add(g6of(graph.FlowerSnark(3)))
			rec.add(g6of(graph.GeneralisedPetersenGraph(4+n%2, 1)))
			rec.add(g6of(graph.FriendshipGraph(1 + n%3)))
			rec.add(g6of(graph.CirculantBipartiteGraph(3, 3+n%2, 0, 1)))
			rec.add(g6of(graph.RandomGraph(n, 0.4, int64(seed))))
			rec.add(g6of(graph.RandomTree(n+2, int64(seed))))
			rec.add(g6of(graph.Cycle(n + 3)))
			rec.add(g6of(graph.CompletePartiteGraph(2, 1+n%3)))
			rec.add(g6of(graph.CirculantGraph(n+4, 1, 2)))
			rec.add(g6of(graph.LineGraphDense(graph.Path(n + 2))))
			rec.add(g6of(graph.ComplementDense(graph.Star(n + 2))))
			cp := graph.CompleteGraph(3 + n%3)
			rec.ints("chrompoly", graph.ChromaticPolynomial(cp))
			rec.ints("cycles", graph.NumberOfCycles(graph.Cycle(4+n%3)))
		}
	}
}

// ---- scenario catalogue ----------------------------------------------------------------------

type scenario struct {
	name     string
	specs    []spec
	wp       worldParams
	shardSet bool // the tasks are ALL shards of one search
	shardN   int
	shardP   int
}

func drawScenario(r *driver.Run, cold bool) scenario {
	t := r.T
	var sc scenario
	sc.wp = worldParams{gn: t.Range(3, 9), gseed: t.Draw(1000), gden: 1 + t.Draw(7), words: 5 + t.Draw(40), wseed: t.Draw(1000)}
	for i := range sc.wp.chanCap {
		sc.wp.chanCap[i] = 1 + t.Draw(3)
	}
	thorough := r.Tier == "thorough"
	anyTask := func(exclude map[int]bool) spec {
		for {
			k := t.Draw(numKinds)
			if exclude[k] || k == kCliqueProducer || k == kCliqueConsumer || k == kForkHalf {
				continue
			}
			return drawSpec(r, k, thorough)
		}
	}
	which := t.Draw(12)
	if cold {
		which = 10
	}
	switch which {
	case 11:
		// the same query on the same shared value with different arguments: state keyed by the
		// value alone (a memo, coalesced in-flight calls) answers one task with another's result
		k := t.Range(2, 3)
		s := drawSpec(r, kObserver, thorough)
		for i := 0; i < k; i++ {
			s.p[3] = (s.p[3] + 1) % 4
			sc.specs = append(sc.specs, s)
		}
		sc.name = "one query, different arguments"
	case 10:
		// twins: 2-3 identical tasks. They execute the same call sequence, so under a fine-grained
		// schedule they reach any process-wide or per-value lazily filled state at the same time.
		k := t.Range(2, 3)
		s := anyTask(nil)
		for i := 0; i < k; i++ {
			sc.specs = append(sc.specs, s)
		}
		sc.name = "twins of " + kindNames[s.kind]
	case 0: // all shards of one search
		n := t.Range(3, 6)
		if thorough && t.Chance(1, 4) {
			n = 7
		}
		m := t.Range(2, 5)
		pred := t.Draw(3)
		saveEvery := []int{0, 0, 1, 3, 10}[t.Draw(5)]
		for a := 0; a < m; a++ {
			sc.specs = append(sc.specs, spec{kind: kShard, p: [6]int{n, a, m, pred, saveEvery}})
		}
		sc.name = fmt.Sprintf("shards n=%d m=%d pred=%d", n, m, pred)
		sc.shardSet, sc.shardN, sc.shardP = true, n, pred
	case 1:
		k := t.Range(2, 4)
		for i := 0; i < k; i++ {
			sc.specs = append(sc.specs, drawSpec(r, kLabeller, thorough))
		}
		sc.name = "labellers"
	case 2:
		k := t.Range(2, 5)
		for i := 0; i < k; i++ {
			sc.specs = append(sc.specs, drawSpec(r, []int{kIterator, kComb}[t.Draw(2)], thorough))
		}
		sc.name = "iterators+comb"
	case 3:
		k := t.Range(2, 5)
		for i := 0; i < k; i++ {
			sc.specs = append(sc.specs, drawSpec(r, []int{kDawgQuery, kDawgQuery, kDawgBuild}[t.Draw(3)], thorough))
		}
		sc.name = "dawg"
	case 4:
		k := t.Range(2, 5)
		for i := 0; i < k; i++ {
			sc.specs = append(sc.specs, drawSpec(r, []int{kObserver, kObserver, kEncoders, kCopyEditor}[t.Draw(4)], thorough))
		}
		sc.name = "observers"
	case 5: // clique producer/consumer pairs
		pairs := t.Range(1, 3)
		for i := 0; i < pairs; i++ {
			g := t.Draw(4)
			sc.specs = append(sc.specs, spec{kind: kCliqueProducer, p: [6]int{g, i}}, spec{kind: kCliqueConsumer, p: [6]int{g, i}})
		}
		if t.Chance(1, 2) && len(sc.specs) < 6 {
			sc.specs = append(sc.specs, drawSpec(r, kObserver, thorough))
		}
		sc.name = "cliques"
	case 6:
		k := t.Range(2, 4)
		for i := 0; i < k; i++ {
			sc.specs = append(sc.specs, drawSpec(r, []int{kSets, kDSU, kTSP, kSort, kEditor, kCodecs, kGenerators}[t.Draw(7)], thorough))
		}
		sc.name = "sets/dsu/tsp/sort/editors/codecs"
	case 7: // checkpoint fork: original and restored clone as two tasks
		sc.wp.forkN = t.Range(3, 6)
		sc.wp.forkM = t.Range(1, 3)
		sc.wp.forkA = t.Draw(sc.wp.forkM)
		sc.wp.forkK = t.Draw(20)
		sc.wp.forkPred = t.Draw(3)
		sc.specs = []spec{{kind: kForkHalf, p: [6]int{0}}, {kind: kForkHalf, p: [6]int{1}}}
		if t.Chance(1, 2) {
			sc.specs = append(sc.specs, drawSpec(r, kShard, thorough))
		}
		sc.name = "checkpoint-fork"
	default: // mixed
		k := t.Range(2, 6)
		for i := 0; i < k; i++ {
			sc.specs = append(sc.specs, anyTask(nil))
		}
		sc.name = "mixed"
	}
	return sc
}

func drawSpec(r *driver.Run, k int, thorough bool) spec {
	t := r.T
	s := spec{kind: k}
	switch k {
	case kShard:
		n := t.Range(3, 6)
		m := t.Range(1, 4)
		s.p = [6]int{n, t.Draw(m), m, t.Draw(3), []int{0, 0, 1, 3, 10}[t.Draw(5)]}
	case kLabeller:
		s.p = [6]int{t.Range(2, 8), t.Range(1, 8), t.Draw(1000)}
		if t.Chance(1, 8) {
			s.p[0] = t.Range(21, 26)
			s.p[1] = t.Range(1, 3)
		}
	case kIterator:
		s.p = [6]int{t.Draw(13), t.Draw(6), t.Draw(6)}
	case kComb, kDawgQuery, kSets, kDSU:
		s.p = [6]int{t.Draw(1000), t.Range(1, 30)}
	case kDawgBuild:
		s.p = [6]int{t.Draw(1000), t.Range(1, 40)}
	case kObserver:
		s.p = [6]int{t.Draw(4), t.Draw(22), t.Draw(3), t.Draw(4)}
	case kTSP:
		s.p = [6]int{t.Draw(9), t.Draw(100)}
	case kEncoders:
		s.p = [6]int{t.Draw(4), t.Draw(3)}
	case kSort:
		s.p = [6]int{t.Draw(1000), t.Range(0, 60)}
		if t.Chance(1, 8) {
			// slices large enough for whatever a library does differently "from a certain size on"
			s.p[1] = []int{1100, 4200, 8300, 17000}[t.Draw(4)]
		}
	case kGenerators:
		s.p = [6]int{t.Draw(1000), t.Range(1, 5)}
	case kEditor:
		s.p = [6]int{t.Draw(1000), t.Range(1, 25), t.Draw(2)}
	case kCopyEditor:
		s.p = [6]int{t.Draw(1000), t.Range(1, 25), t.Draw(2)}
	case kCodecs:
		s.p = [6]int{t.Draw(1000), t.Range(1, 8)}
	}
	return s
}

// ---- race log --------------------------------------------------------------------------------

var (
	raceLogPath string
	raceLogOff  int64
	sites       []siteInfo
)

type siteInfo struct {
	ID   int    `json:"id"`
	File string `json:"file"`
	Line int    `json:"line"`
	Kind string `json:"kind"`
	Func string `json:"func"`
}

func initRaceLog() {
	for _, f := range strings.Fields(os.Getenv("GORACE")) {
		if strings.HasPrefix(f, "log_path=") {
			raceLogPath = strings.TrimPrefix(f, "log_path=") + "." + strconv.Itoa(os.Getpid())
		}
	}
	if p := os.Getenv("VERIF_SITES"); p != "" {
		if b, err := os.ReadFile(p); err == nil {
			json.Unmarshal(b, &sites)
		}
	}
}

func siteName(id int) string {
	if id >= 0 && id < len(sites) {
		s := sites[id]
		return fmt.Sprintf("%s:%d (%s %s)", s.File, s.Line, s.Func, s.Kind)
	}
	if id == 0xffff || id < 0 {
		return "task end / harness yield"
	}
	return "site " + strconv.Itoa(id)
}

// newRaceReports returns the text the race detector wrote since the last call.
func newRaceReports() string {
	if raceLogPath == "" {
		return ""
	}
	f, err := os.Open(raceLogPath)
	if err != nil {
		return ""
	}
	defer f.Close()
	fi, err := f.Stat()
	if err != nil || fi.Size() <= raceLogOff {
		return ""
	}
	buf := make([]byte, fi.Size()-raceLogOff)
	f.ReadAt(buf, raceLogOff)
	raceLogOff = fi.Size()
	return string(buf)
}

var frameRe = regexp.MustCompile(`(?m)^  (\S+)\(.*\)\n\s+(\S+):(\d+)`)

// raceKey extracts, for the first report, the innermost frame of each of the two
// accesses (function + file:line), which identifies the racing code.
func raceKey(rep string) (key string, inTree bool) {
	first := rep
	if i := strings.Index(rep, "\n==================\n"); i >= 0 {
		if j := strings.Index(rep[i+1:], "=================="); j >= 0 {
			_ = j
		}
	}
	parts := strings.Split(first, "Previous ")
	var tops []string
	for _, part := range parts[:min(len(parts), 2)] {
		// innermost frame of the tree under test (falling back to the innermost frame outside
		// the Go runtime if the stack has none)
		ms := frameRe.FindAllStringSubmatch(part, 12)
		pick := -1
		for i, m := range ms {
			if strings.Contains(m[1], "Tom-Johnston/mamba") {
				pick = i
				break
			}
		}
		if pick < 0 {
			for i, m := range ms {
				if !strings.HasPrefix(m[1], "runtime.") {
					pick = i
					break
				}
			}
		}
		if pick >= 0 {
			m := ms[pick]
			fn := m[1]
			if i := strings.LastIndex(fn, "/"); i >= 0 {
				fn = fn[i+1:]
			}
			file := m[2]
			if strings.Contains(m[1], "Tom-Johnston/mamba") {
				inTree = true
			}
			if i := strings.LastIndex(file, "/"); i >= 0 {
				if j := strings.LastIndex(file[:i], "/"); j >= 0 {
					file = file[j+1:]
				}
			}
			tops = append(tops, fn+" "+file+":"+m[3])
		}
	}
	// any frame of the tree under test anywhere in the report also counts
	if strings.Contains(first, "Tom-Johnston/mamba/") {
		inTree = true
	}
	sort.Strings(tops)
	return strings.Join(tops, " <-> "), inTree
}

func min(a, b int) int {
	if a < b {
		return a
	}
	return b
}

// ---- one run ----------------------------------------------------------------------------------------

func panicText(p interface{}) string {
	if p == nil {
		return ""
	}
	if e, ok := p.(error); ok {
		return "panic: " + e.Error()
	}
	return fmt.Sprint("panic: ", p)
}

func runOne(r *driver.Run) {
	t := r.T
	// cold: the driver executes this run in a fresh process (forced draw, part of the tape)
	cold := t.Draw(2) == 1
	sc := drawScenario(r, cold)
	nt := len(sc.specs)
	names := make([]string, nt)
	for i, s := range sc.specs {
		names[i] = fmt.Sprintf("T%d:%s%v", i, kindNames[s.kind], s.p[:4])
	}
	r.Logf("scenario %s: tasks %v; shared graph n=%d seed=%d density=%d/8, shared dawg of <=%d words, channel capacities %v", sc.name, names, sc.wp.gn, sc.wp.gseed, sc.wp.gden, sc.wp.words, sc.wp.chanCap[:3])

	// ---- solo passes: every task alone, scheduler inactive, on freshly built identical values
	expected := make([]Rec, nt)
	expPanic := make([]string, nt)
	var soloYields int64
	sched.SoloSitesReset()
	// In half of the runs the concurrent pass comes FIRST: process-wide lazily filled
	// state (a memo table, a sync.Once-guarded pool) would otherwise always be warmed by the
	// solo passes before the tasks ever meet it concurrently.
	concFirst := t.Chance(1, 2) || cold
	soloPasses := func() bool {
		for i := 0; i < nt; i++ {
			s := sc.specs[i]
			if s.kind == kCliqueProducer {
				continue
			}
			wp := sc.wp
			if s.kind == kCliqueConsumer {
				// the pair's solo result: the producer with a channel it can never fill, then drained
				wp.chanCap[s.p[1]] = 1 << 16
				w := buildWorld(wp)
				if w == nil {
					r.Count("skipped_world_cannot_be_built", 1)
					return false
				}
				prod := makeTask(spec{kind: kCliqueProducer, p: s.p}, w, &Rec{})
				cons := makeTask(s, w, &expected[i])
				y, pan, over := sched.Solo(20_000_000, func() { prod(); cons() })
				soloYields += y
				expPanic[i] = panicText(pan)
				if over {
					r.Count("skipped_scenario_too_expensive", 1)
					r.Logf("solo pass of %s exceeds the solo step budget: scenario skipped", names[i])
					return false
				}
				continue
			}
			w := buildWorld(wp)
			if w == nil {
				r.Count("skipped_world_cannot_be_built", 1)
				return false
			}
			f := makeTask(s, w, &expected[i])
			y, pan, over := sched.Solo(20_000_000, f)
			soloYields += y
			expPanic[i] = panicText(pan)
			if over {
				r.Count("skipped_scenario_too_expensive", 1)
				r.Logf("solo pass of %s exceeds the solo step budget: scenario skipped", names[i])
				return false
			}
		}
		return true
	}
	if os.Getenv("VERIF_SOLO_ONLY") == "1" {
		// helper process of a cold run: only the solo passes, results handed back in the trace
		if soloPasses() {
			type sr struct {
				H     []uint64 `json:"h"`
				N     []int    `json:"n"`
				Panic []string `json:"panic"`
			}
			out := sr{Panic: expPanic}
			for i := range expected {
				out.H = append(out.H, expected[i].h)
				out.N = append(out.N, expected[i].n)
			}
			b, _ := json.Marshal(out)
			r.Tracing = true
			r.Logf("SOLO-RESULTS %s", b)
		}
		return
	}
	soloElsewhere := false
	if cold {
		// A cold run must not compute its reference results in its own process: if the
		// concurrent pass corrupts process-wide state, solo passes run afterwards would be
		// corrupted the same way. The solo passes run in yet another fresh process.
		h, n, pn, ok := soloInFreshProcess(r)
		if !ok {
			r.Count("skipped_cold_solo_unavailable", 1)
			return
		}
		for i := range expected {
			expected[i].h, expected[i].n, expPanic[i] = h[i], n[i], pn[i]
		}
		soloElsewhere = true
	}
	if !concFirst {
		if !soloPasses() {
			return
		}
	}
	ssites, scounts := sched.SoloSites()

	// ---- the schedule
	cfg := sched.Config{Seed: uint64(t.Draw(1 << 31)), First: t.Draw(nt), StepBudget: 30*soloYields + 2_000_000}
	pol := t.Weighted([]int{2, 5, 3, 3})
	if concFirst {
		// no solo profile yet: policies that need yield ordinals / site counts are not available
		pol = t.Weighted([]int{1, 3})
		if cold {
			pol = sched.PolUniform
			r.Probe("cold-start-twins-run")
		}
		cfg.StepBudget = 120_000_000
		r.Probe("concurrent-pass-before-solo-passes")
	}
	cfg.Policy = pol
	switch pol {
	case sched.PolCoarse:
		cfg.Q = []int64{2000, 20000}[t.Draw(2)]
	case sched.PolUniform:
		cfg.Q = []int64{1000, 100, 10, 2}[t.Draw(4)]
	case sched.PolPCT:
		cfg.Q = 1
		d := t.Range(1, 5)
		var pts []int64
		for i := 0; i < d; i++ {
			pts = append(pts, 1+int64(t.Draw(int(soloYields)+1)))
		}
		sort.Slice(pts, func(i, j int) bool { return pts[i] < pts[j] })
		copy(cfg.Preempt[:], pts)
		cfg.NPreempt = d
	case sched.PolSite:
		cfg.Q = 5000
		if len(ssites) > 0 {
			k := t.Draw(len(ssites))
			cfg.Site = ssites[k]
			cfg.SiteVisit = 1 + int64(t.Draw(int(min(int(scounts[k]), 200))))
		}
	}
	polName := []string{"coarse", "uniform", "pct", "site"}[pol]
	r.Logf("schedule: policy=%s Q=%d seed=%d first=T%d preempt-at=%v site=%s visit=%d (solo passes: %d yields)", polName, cfg.Q, cfg.Seed, cfg.First, cfg.Preempt[:cfg.NPreempt], siteName(cfg.Site), cfg.SiteVisit, soloYields)

	// ---- the concurrent pass on fresh values
	w := buildWorld(sc.wp)
	if w == nil {
		r.Count("skipped_world_cannot_be_built", 1)
		return
	}
	before := snapshot(w)
	got := make([]Rec, nt)
	tasks := make([]func(), nt)
	for i := range sc.specs {
		tasks[i] = makeTask(sc.specs[i], w, &got[i])
	}
	newRaceReports() // discard anything older (there should be nothing)
	pans, stats := sched.Run(cfg, tasks)
	reports := newRaceReports()
	after := snapshot(w)
	// after a deadlocked or runaway concurrent pass the tasks were unwound wherever they stood:
	// the process is not in a state in which the solo passes mean anything (a semaphore slot the
	// tree took is never given back), and the verdict does not need them
	if concFirst && (stats.Deadlock || stats.Over) && !soloElsewhere {
		// the verdict needs to know that every task terminates within the solo budget when run
		// alone (otherwise the scenario is simply too expensive): ask a fresh process
		h, n, pn, ok := soloInFreshProcess(r)
		if !ok {
			r.Count("skipped_scenario_too_expensive", 1)
			r.Logf("concurrent pass over budget or deadlocked, and the solo passes in a fresh process do not fit the solo budget: scenario skipped")
			return
		}
		for i := range expected {
			expected[i].h, expected[i].n, expPanic[i] = h[i], n[i], pn[i]
		}
		soloElsewhere = true
	}
	if concFirst && !stats.Stuck && !stats.Deadlock && !stats.Over && !soloElsewhere {
		if !soloPasses() {
			return
		}
	}

	r.Count("steps", stats.Yields)
	r.Count("yields", stats.Yields)
	r.Count("switches", stats.Switches)
	r.Count("fault.preemption(context switch decided by the simulator)", stats.Switches)
	r.Count("tasks", int64(nt))
	r.Count("policy."+polName, 1)
	r.Count("scenario."+sc.name[:min(len(sc.name), 12)], 1)
	r.Obs(stats.IHash, uint64(stats.Switches))
	if r.Tracing {
		for i, v := range stats.SwitchTrace {
			if i >= 60 {
				r.Logf("  ... %d more context switches", int(stats.Switches)-i)
				break
			}
			r.Logf("  switch %d: -> T%d at %s", i, v>>16, siteName(int(v&0xffff)))
		}
	}
	r.Logf("concurrent pass: %d yields, %d context switches, per task %v", stats.Yields, stats.Switches, stats.PerTask[:nt])
	if stats.Switches >= 2 {
		r.Nontrivial = true
	}
	if pol == sched.PolSite && stats.SiteHitDuring == 1 {
		r.Probe("site-policy-preempted-at-chosen-visit")
	}

	// ---- oracles
	if reports != "" {
		key, inTree := raceKey(reports)
		nrep := strings.Count(reports, "WARNING: DATA RACE")
		r.Fault("race-report")
		if !inTree {
			fmt.Fprintf(os.Stderr, "HARNESS-RACE (no frame of the tree under test):\n%s\n", reports)
			os.Exit(2)
		}
		r.Fail("race", key, "the race detector reports %d data race(s) between tasks of scenario %s under policy %s; first report:\n%s", nrep, sc.name, polName, clipReport(reports))
	}
	if stats.Stuck && stats.StuckArtifact {
		// the simulator cannot decide this run: machinery limit, never a violation
		fmt.Fprintf(os.Stderr, "SIMULATOR-LIMIT property=C19 scenario=%q policy=%s: the task holding the baton sits in a blocking operation that the instrumenter does not turn into a yielding wait (sync.WaitGroup.Wait, sync.Cond.Wait, range over a channel, select without default, ...) while another task is runnable. The check cannot explore this tree (exit 2).\n", sc.name, polName)
		os.Exit(2)
	}
	if stats.Stuck {
		r.Fail("stuck", sc.name, "no yield point was executed for a minute of wall time during the concurrent pass of scenario %s (policy %s) although every task terminated when run alone: a task is blocked for ever in a blocking operation (channel receive / select / WaitGroup ...) that only completes under some interleavings. The process cannot continue after this.", sc.name, polName)
	}
	if stats.Deadlock {
		r.Fail("deadlock", sc.name, "all live tasks are blocked (scenario %s)", sc.name)
	}
	if stats.Over {
		r.Fail("diverged", "step budget", "the concurrent pass exceeded its logical step budget %d (solo passes needed %d yields): some task no longer terminates when interleaved (scenario %s, policy %s)", cfg.StepBudget, soloYields, sc.name, polName)
	}
	for i := 0; i < nt; i++ {
		if sc.specs[i].kind == kCliqueProducer {
			if pans[i] != nil {
				r.Fail("diverged", "task panics only when interleaved", "%s panicked when interleaved: %v", names[i], pans[i])
			}
			continue
		}
		gp := panicText(pans[i])
		if gp != expPanic[i] {
			r.Fail("diverged", "task panics only when interleaved", "%s: interleaved outcome %q, alone %q (scenario %s, policy %s)", names[i], gp, expPanic[i], sc.name, polName)
		}
		if got[i].h != expected[i].h || got[i].n != expected[i].n {
			r.Fail("diverged", kindNames[sc.specs[i].kind]+" result differs from its solo result", "%s: interleaved result (%d records, first %q) differs from the result of the same task run alone (%d records, first %q); scenario %s, policy %s, %d switches", names[i], got[i].n, got[i].first, expected[i].n, expected[i].first, sc.name, polName, stats.Switches)
		}
		r.Obs(got[i].h)
	}
	if before != after {
		r.Fail("shared-value-modified", sc.name, "a value that tasks only read was modified during the concurrent pass (scenario %s)", sc.name)
	}
	if sc.shardSet && expPanic[0] == "" {
		seen := map[model.Code]int{}
		total := 0
		for i := range got {
			for _, c := range got[i].codes {
				if prev, dup := seen[c]; dup {
					r.Fail("shards-overlap", "parallel shards yield isomorphic graphs", "shards %d and %d of n=%d both yield the class with code %x when run in parallel", prev, i, sc.shardN, c.Bits)
				}
				seen[c] = i
				total++
			}
		}
		want := -1
		switch sc.shardP {
		case 0:
			want = model.A000088[sc.shardN]
		default:
			want = len(model.Classes(sc.shardN, model.TriangleFree))
		}
		if total != want {
			r.Fail("shards-incomplete", "parallel shards miss classes", "the parallel shards of n=%d yield %d classes, there are %d", sc.shardN, total, want)
		}
		r.Probe("parallel-shard-set-partitions-classes")
	}
}

// soloInFreshProcess re-executes the tape drawn so far in a fresh process of this binary in
// solo-only mode and returns the per-task reference results.
func soloInFreshProcess(r *driver.Run) (h []uint64, n []int, pn []string, ok bool) {
	dir, err := os.MkdirTemp("", "solo-")
	if err != nil {
		return nil, nil, nil, false
	}
	defer os.RemoveAll(dir)
	in, out := dir+"/tape.json", dir+"/out.json"
	b, _ := json.Marshal(r.T.Rec)
	os.WriteFile(in, b, 0o644)
	c := exec.Command(os.Args[0], "-exectape", in, "-execout", out, "-tier", r.Tier)
	c.Env = append(os.Environ(), "VERIF_SOLO_ONLY=1")
	c.Stderr = os.Stderr
	if c.Run() != nil {
		return nil, nil, nil, false
	}
	ob, err := os.ReadFile(out)
	if err != nil {
		return nil, nil, nil, false
	}
	var res struct {
		Trace []string `json:"trace"`
	}
	if json.Unmarshal(ob, &res) != nil {
		return nil, nil, nil, false
	}
	for _, l := range res.Trace {
		if strings.HasPrefix(l, "SOLO-RESULTS ") {
			var sr struct {
				H     []uint64 `json:"h"`
				N     []int    `json:"n"`
				Panic []string `json:"panic"`
			}
			if json.Unmarshal([]byte(strings.TrimPrefix(l, "SOLO-RESULTS ")), &sr) == nil {
				return sr.H, sr.N, sr.Panic, true
			}
		}
	}
	return nil, nil, nil, false
}

func clipReport(s string) string {
	lines := strings.Split(s, "\n")
	if len(lines) > 45 {
		lines = append(lines[:45], "...")
	}
	return strings.Join(lines, "\n")
}

func main() {
	sched.Install()
	initRaceLog()
	spec := &driver.Spec{
		Property: "C19",
		Engine:   "sched",
		// worker i runs under GOMAXPROCS 16, 1, 2, 4, 16, ...: package-level state sized "one per P"
		ProcsSwarm: []int{16, 1, 2, 4},
		Level:      "exploration",
		Rule: "a case is one seeded (scenario, schedule) pair: 2-6 tasks drawn from a catalogue of 19 task kinds in 12 scenarios (all shards of one search; labellers with own storage; iterators+comb; Dawg queries with own searchers on one shared Dawg next to builders; observers and read-only algorithms on one shared dense/sparse/complement/induced-view graph; AllMaximalCliques producer/consumer pairs over channels of capacity 1-3; sets/dsu/tsp/sort/graph editors/codecs/generators on own values; a checkpoint-restored iterator next to its original; twins = 2-3 identical tasks; the same query on the same shared graph with different arguments (k of IsKColorable, path lengths, end points, orders, seeds); mixed); one run in 200 is executed in a fresh process (with its reference solo results computed in yet another fresh process) ('cold start': twins, concurrent pass before the solo passes, fine-grained schedule) so that process-wide lazily initialised state is met concurrently, run as goroutines of which exactly one holds the baton; a seeded policy (coarse quanta, uniform quanta in [1,2Q] for Q in {2,10,100,1000}, <= 5 preemptions at exact yield ordinals, preemption at the j-th visit of a chosen site) decides every context switch at the generated yield points. " +
			"Checked: each task's result equals its result run alone on freshly built identical values; the race detector (blind to the baton hand-over, history_size=7) reports nothing; shared values are unchanged; a complete shard set still partitions the classes. Non-trivial = at least 2 context switches; distinct = distinct hashes of the (task, site) sequence at switch points together with the results (distinct interleavings).",
		Assumptions: []string{
			"execution is serialised by the simulator: effects of truly parallel execution that do not need a data race (weak memory) are out of reach; the race-detector clause covers them to the extent that they need a race",
			"yield points exist at function entries, loop heads, lock/unlock operations, channel sends and before statements that contain a sync/atomic operation; a preemption between two statements not separated by one of these is not explored",
			"GOMAXPROCS is 16, 1, 2 or 4 depending on the worker (a knob the tree can read; with the baton only one task goroutine runs at a time whatever its value)",
			"the race detector can only report a race whose earlier access is still in its per-goroutine history (GORACE history_size=7)",
			"standard-library internals that synchronise (sync.Pool in fmt, gob's type lock) add real happens-before edges that can hide one direction of a conflicting pair in one schedule",
		},
		Real:  []string{"every mamba package, with generated yield points (and the try-send rewrite of the one channel send)", "Go race detector runtime", "encoding/gob, fmt, text/tabwriter"},
		Stubs: []string{"the goroutine scheduler (baton + seeded policies)", "callers / consumers / predicates / searchers supplied by the harness"},
		Plan: func(tier string) driver.Plan {
			if tier == "thorough" {
				return driver.Plan{Random: 150000, WallLimit: 60 * time.Minute, ColdEvery: 25}
			}
			return driver.Plan{Random: 20000, WallLimit: 6 * time.Minute}
		},
		RunOne:    runOne,
		OwnHook:   true,
		Isolated:  true,
		ColdEvery: 200,
		Finish: func(c map[string]int64) {
			seen, pre := sched.Coverage()
			for i := range seen {
				if seen[i] > 0 {
					c["siteseen."+strconv.Itoa(i)] = int64(seen[i])
				}
				if pre[i] > 0 {
					c["sitepre."+strconv.Itoa(i)] = int64(pre[i])
				}
			}
		},
		Extra: func(c map[string]int64, cov map[string]interface{}) {
			ns, np := 0, 0
			for k := range c {
				if strings.HasPrefix(k, "siteseen.") {
					ns++
				}
				if strings.HasPrefix(k, "sitepre.") {
					np++
				}
			}
			if cm, ok := cov["counters"].(map[string]int64); ok {
				for k := range cm {
					if strings.HasPrefix(k, "siteseen.") || strings.HasPrefix(k, "sitepre.") {
						delete(cm, k)
					}
				}
			}
			unexec := map[string]bool{}
			for _, si := range sites {
				if _, ok := c["siteseen."+strconv.Itoa(si.ID)]; !ok {
					unexec[si.Func] = true
				}
			}
			var ul []string
			for f := range unexec {
				ul = append(ul, f)
			}
			sort.Strings(ul)
			cov["functions_with_yield_sites_never_executed_concurrently"] = ul
			cov["yield_sites_total"] = len(sites)
			cov["yield_sites_executed_in_concurrent_passes"] = ns
			cov["yield_sites_used_as_context_switch_point"] = np
			cov["context_switches"] = c["switches"]
			cov["yield_points_executed"] = c["yields"]
			cov["distinct_interleavings_measure"] = "distinct_nontrivial counts distinct hashes of the (task, site) sequence at context switches combined with the task results"
			cov["race_build"] = sched.RaceBuild()
		},
	}
	driver.Main(spec)
}
