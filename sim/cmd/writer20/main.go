// Engine writer-faults (C20): tsp.LIB against a simulated writer that fails at
// every position, in every way an io.Writer legally can.
package main

import (
	"errors"
	"fmt"
	"io"
	"strconv"
	"strings"
	"time"

	"github.com/Tom-Johnston/mamba/tsp"
	"mambasim/driver"
)

// ---- the simulated writer --------------------------------------------------------

type failMode int

const (
	noFail     failMode = iota
	failZero            // accept 0 bytes, return error
	failShort           // accept a strict prefix, return error
	failAllErr          // accept everything but still return an error (legal: n == len(p), err != nil)
)

var errInjected = errors.New("injected write failure")

// tempError looks like a transient OS/network error (EINTR, a timeout): code that
// retries "temporary" errors must still report the failure if it does not fully recover.
type tempError struct{}

func (tempError) Error() string   { return "injected temporary write failure" }
func (tempError) Temporary() bool { return true }
func (tempError) Timeout() bool   { return true }

type faultyWriter struct {
	r         *driver.Run
	buf       []byte
	calls     int
	plan      func(call int, p []byte) failMode // decides per call
	fired     int
	permanent bool // once failed, always fail
	temp      bool // failures carry an error with Temporary() == true
	errKind   int  // 0: plain / temporary; 1: io.EOF; 2: io.ErrShortWrite; 3: io.ErrClosedPipe (sentinel errors code may special-case)
	dead      bool
	firstFail int
}

func (w *faultyWriter) err() error {
	switch w.errKind {
	case 1:
		return io.EOF
	case 2:
		return io.ErrShortWrite
	case 3:
		return io.ErrClosedPipe
	}
	if w.temp {
		return tempError{}
	}
	return errInjected
}

func (w *faultyWriter) Write(p []byte) (int, error) {
	k := w.calls
	w.calls++
	mode := noFail
	if w.dead {
		mode = failZero
	} else if w.plan != nil {
		mode = w.plan(k, p)
	}
	switch mode {
	case noFail:
		w.buf = append(w.buf, p...)
		return len(p), nil
	case failShort:
		n := len(p) / 2
		w.buf = append(w.buf, p[:n]...)
		w.note(k, "short", len(p), n)
		return n, w.err()
	case failAllErr:
		w.buf = append(w.buf, p...)
		w.note(k, "full-count-with-error", len(p), len(p))
		return len(p), w.err()
	default:
		w.note(k, "zero", len(p), 0)
		return 0, w.err()
	}
}

func (w *faultyWriter) note(k int, kind string, l, n int) {
	if w.fired == 0 {
		w.firstFail = k
	}
	w.fired++
	if w.permanent {
		w.dead = true
	}
	if w.dead && w.fired > 1 {
		w.r.Fault("write-after-permanent-failure")
	} else if w.temp {
		w.r.Fault("write-" + kind + "-temporary-error")
	} else {
		w.r.Fault("write-" + kind)
	}
	if l == 0 {
		w.r.Probe("failed-zero-length-write")
	}
	w.r.Logf("  write #%d (%d bytes): FAULT %s, %d accepted", k, l, kind, n)
}

// ---- weight families -------------------------------------------------------------

type family struct {
	name string
	f    func(i, j int) int
}

func families(extra func(i, j int) int) []family {
	fs := []family{
		{"zero", func(i, j int) int { return 0 }},
		{"10i+j", func(i, j int) int { return 10*i + j }},
		{"negative", func(i, j int) int { return -(i*7 + j + 1) }},
		{"huge", func(i, j int) int {
			switch (i + 2*j) % 5 {
			case 0:
				return 1 << 62
			case 1:
				return -(1 << 62)
			case 2:
				return -1 << 63 // math.MinInt64: its negation overflows
			case 3:
				return 1<<63 - 1
			}
			return -(1<<63 - 1)
		}},
		{"asymmetric-definition", func(i, j int) int { return 1000*i - 3*j }},
		{"mixed-width", func(i, j int) int {
			if j == 0 {
				return 123456789 * (i + 1)
			}
			return j - i
		}},
	}
	if extra != nil {
		fs = append(fs, family{"tape", extra})
	}
	return fs
}

// ---- the reference parser ----------------------------------------------------------

// parseLIB checks text against the TSPLIB shape the property states and returns "" or
// a description of the first deviation.
func parseLIB(text string, n int, w func(i, j int) int) string {
	lines := strings.Split(text, "\n")
	if len(lines) == 0 || lines[len(lines)-1] != "" {
		return "output does not end with a newline"
	}
	lines = lines[:len(lines)-1]
	hdr := map[string]string{}
	i := 0
	for ; i < len(lines); i++ {
		l := strings.TrimSpace(lines[i])
		if l == "EDGE_WEIGHT_SECTION" {
			break
		}
		kv := strings.SplitN(l, ":", 2)
		if len(kv) != 2 {
			return fmt.Sprintf("header line %d %q is not KEY: VALUE", i, lines[i])
		}
		k := strings.TrimSpace(kv[0])
		if _, dup := hdr[k]; dup {
			return "duplicate header key " + k
		}
		hdr[k] = strings.TrimSpace(kv[1])
	}
	if i == len(lines) {
		return "no EDGE_WEIGHT_SECTION line"
	}
	if hdr["TYPE"] != "TSP" {
		return fmt.Sprintf("TYPE is %q", hdr["TYPE"])
	}
	if hdr["DIMENSION"] != strconv.Itoa(n) {
		return fmt.Sprintf("DIMENSION is %q, want %d", hdr["DIMENSION"], n)
	}
	if hdr["EDGE_WEIGHT_TYPE"] != "EXPLICIT" {
		return fmt.Sprintf("EDGE_WEIGHT_TYPE is %q", hdr["EDGE_WEIGHT_TYPE"])
	}
	if hdr["EDGE_WEIGHT_FORMAT"] != "LOWER_DIAG_ROW" {
		return fmt.Sprintf("EDGE_WEIGHT_FORMAT is %q", hdr["EDGE_WEIGHT_FORMAT"])
	}
	i++
	for row := 0; row < n; row++ {
		if i >= len(lines) {
			return fmt.Sprintf("weight row %d missing", row)
		}
		fs := strings.Fields(lines[i])
		if len(fs) != row+1 {
			return fmt.Sprintf("weight row %d has %d entries, want %d: %q", row, len(fs), row+1, lines[i])
		}
		for j, f := range fs {
			v, err := strconv.ParseInt(f, 10, 64)
			if err != nil {
				return fmt.Sprintf("row %d entry %d: %v", row, j, err)
			}
			want := int64(0)
			if j < row {
				want = int64(w(row, j))
			}
			if v != want {
				return fmt.Sprintf("row %d entry %d is %d, want %d", row, j, v, want)
			}
		}
		i++
	}
	if i >= len(lines) || strings.TrimSpace(lines[i]) != "EOF" {
		got := "<end of output>"
		if i < len(lines) {
			got = lines[i]
		}
		return fmt.Sprintf("expected EOF after %d weight rows, found %q", n, got)
	}
	for i++; i < len(lines); i++ {
		if strings.TrimSpace(lines[i]) != "" {
			return fmt.Sprintf("text after EOF: %q", lines[i])
		}
	}
	return ""
}

// ---- one execution of LIB ----------------------------------------------------------

type outcome struct {
	err      error
	w        *faultyWriter
	badCall  string
	numCalls int
}

func runLIB(r *driver.Run, n int, wf func(i, j int) int, fw *faultyWriter) outcome {
	var o outcome
	o.w = fw
	weights := func(i, j int) int {
		o.numCalls++
		if !(0 <= j && j < i && i < n) && o.badCall == "" {
			o.badCall = fmt.Sprintf("weights(%d, %d) called with n = %d", i, j, n)
			return 0
		}
		return wf(i, j)
	}
	budget := int64(100000 + 2000*n*n)
	r.Must(fmt.Sprintf("tsp.LIB(n=%d)", n), budget, func() { o.err = tsp.LIB(fw, n, weights) })
	return o
}

func judge(r *driver.Run, o outcome, n int, fam family, schedule string) {
	r.Obs(uint64(o.w.calls), uint64(len(o.w.buf)), uint64(o.w.fired))
	if o.badCall != "" {
		r.Fail("weights-domain", fam.name, "%s (%s)", o.badCall, schedule)
	}
	if o.w.fired > 0 {
		if o.err == nil {
			r.Fail("silent-success", fmt.Sprintf("LIB returns nil although a Write failed"),
				"n=%d weights=%s: %s; write #%d failed (%d failures in all, of %d writes) but LIB returned nil; %d bytes reached the writer",
				n, fam.name, schedule, o.w.firstFail, o.w.fired, o.w.calls, len(o.w.buf))
		}
		return
	}
	if o.err != nil {
		r.Fail("spurious-error", "error without a failing write", "n=%d weights=%s: no write failed but LIB returned %v", n, fam.name, o.err)
	}
	if d := parseLIB(string(o.w.buf), n, fam.f); d != "" {
		r.Fail("malformed-output", "fault-free output does not parse", "n=%d weights=%s: %s\n%s", n, fam.name, d, clip(string(o.w.buf)))
	}
}

func clip(s string) string {
	if len(s) > 600 {
		return s[:600] + "..."
	}
	return s
}

var kinds = []struct {
	name      string
	mode      failMode
	permanent bool
	temp      bool
	errKind   int
}{
	{"transient-zero", failZero, false, false, 0},
	{"transient-short", failShort, false, false, 0},
	{"transient-fullcount", failAllErr, false, false, 0},
	{"permanent-zero", failZero, true, false, 0},
	{"permanent-short", failShort, true, false, 0},
	{"transient-zero-temporary-error", failZero, false, true, 0},
	{"transient-short-temporary-error", failShort, false, true, 0},
	{"transient-zero-error-is-io.EOF", failZero, false, false, 1},
	{"transient-short-error-is-io.ErrShortWrite", failShort, false, false, 2},
	{"permanent-zero-error-is-io.ErrClosedPipe", failZero, true, false, 3},
}

func maxN(tier string) int {
	if tier == "thorough" {
		return 24
	}
	return 14
}

// largeNs are additional, larger dimensions (block boundaries such as 32 / 64 / 128 rows
// are where a buffering scheme would change behaviour); every write position and kind
// is enumerated for them too, with two weight families each.
func largeNs(tier string) []int {
	if tier == "thorough" {
		return []int{31, 32, 33, 63, 64, 65, 100, 128, 129, 130}
	}
	return []int{33, 65, 70}
}

type caseCfg struct {
	n       int
	fam     int
	sampled bool // write positions are sampled, not enumerated (very large n)
}

func hugeNs(tier string) []int {
	if tier == "thorough" {
		return []int{255, 256, 257, 300, 513}
	}
	return []int{260}
}

func cases(tier string) []caseCfg {
	var cs []caseCfg
	nf := len(families(nil))
	for n := 0; n <= maxN(tier); n++ {
		for f := 0; f < nf; f++ {
			cs = append(cs, caseCfg{n, f, false})
		}
	}
	for _, n := range largeNs(tier) {
		cs = append(cs, caseCfg{n, 1, false}, caseCfg{n, 5, false})
	}
	for _, n := range hugeNs(tier) {
		cs = append(cs, caseCfg{n, 1, true})
	}
	return cs
}

// enumerated case c = (n, family): the fault-free run, then EVERY write position k and
// EVERY failure kind.
func runCase(r *driver.Run, n int, fam family, sampled bool) {
	r.Logf("config n=%d weights=%s", n, fam.name)
	base := runLIB(r, n, fam.f, &faultyWriter{r: r})
	r.Logf("fault-free: %d writes, %d bytes, err=%v", base.w.calls, len(base.w.buf), base.err)
	judge(r, base, n, fam, "fault-free")
	if n*(n-1)/2 != base.numCalls && n > 0 {
		r.Probe("weights-called-other-than-once-per-pair")
	}
	W := base.w.calls
	r.Count("write_positions", int64(W))
	if W > 3 {
		r.Nontrivial = true
	}
	stride := 1
	if sampled && W > 600 {
		stride = W / 300
		r.Probe("write-positions-sampled-for-very-large-n")
	}
	for k := 0; k < W; k++ {
		if stride > 1 && k >= 20 && k < W-20 && k%stride != 0 {
			continue
		}
		for _, kd := range kinds {
			kd := kd
			k := k
			fw := &faultyWriter{r: r, permanent: kd.permanent, temp: kd.temp, errKind: kd.errKind}
			fw.plan = func(call int, p []byte) failMode {
				if call == k {
					return kd.mode
				}
				return noFail
			}
			mark := len(r.Trace)
			sched := fmt.Sprintf("%s failure at write #%d of %d", kd.name, k, W)
			r.Logf("schedule: %s", sched)
			o := runLIB(r, n, fam.f, fw)
			r.Logf("  -> LIB returned %v after %d writes", o.err, o.w.calls)
			r.Count("fault_schedules", 1)
			if k%3 == 0 || k < 8 {
				// after a failed call a healthy call must be unaffected (no state may leak from the
				// failed call into the next one)
				n2 := n
				if n2 > 3 {
					n2 = 3
				}
				after := runLIB(r, n2, fam.f, &faultyWriter{r: r})
				r.Logf("  then a fault-free call with n=%d: %d bytes, err=%v", n2, len(after.w.buf), after.err)
				r.Count("recovery_calls", 1)
				judge(r, after, n2, fam, "fault-free call right after: "+sched)
			}
			if fw.fired == 0 {
				// the run made fewer writes than the fault-free one; legal only if it also failed... it cannot: nothing failed
				r.Probe("planned-fault-not-reached")
			}
			judge(r, o, n, fam, sched)
			if r.Tracing && len(r.Trace) > mark && k > 0 { // keep the schedules of position 0 as samples, and the failing one
				r.Trace = r.Trace[:mark]
			}
		}
	}
}

func runRandom(r *driver.Run) {
	t := r.T
	n := t.Range(0, 12)
	if t.Chance(1, 16) {
		n = t.Range(13, 140) // occasionally a large instance
	}
	seedA, seedB := t.Draw(1<<31), t.Draw(1<<31)
	tapeW := func(i, j int) int {
		h := uint64(seedA)*0x9e3779b97f4a7c15 + uint64(i)*1000003 + uint64(j)*7919 + uint64(seedB)
		h ^= h >> 29
		h *= 0xbf58476d1ce4e5b9
		h ^= h >> 32
		sh := uint(h % 63)
		return int(int64(h) >> sh)
	}
	fams := families(tapeW)
	fam := fams[t.Draw(len(fams))]
	// several transient failures in one run, kinds mixed; rate chosen per run so that most
	// runs get past the header before the first fault
	rate := []int{0, 1, 2, 5, 20}[t.Draw(5)]
	permanentAfter := t.Chance(1, 4)
	r.Logf("config n=%d weights=%s fault-rate=%d%% permanent=%v", n, fam.name, rate, permanentAfter)
	fw := &faultyWriter{r: r, temp: t.Chance(1, 3), errKind: []int{0, 0, 0, 1, 2, 3}[t.Draw(6)]}
	fw.plan = func(call int, p []byte) failMode {
		if rate == 0 || t.Draw(100) >= rate {
			return noFail
		}
		m := failMode(1 + t.Draw(3))
		if permanentAfter {
			fw.permanent = true
		}
		return m
	}
	o := runLIB(r, n, fam.f, fw)
	r.Logf("LIB returned %v after %d writes (%d failed), %d bytes", o.err, o.w.calls, o.w.fired, len(o.w.buf))
	if fw.fired > 0 {
		n2 := t.Range(0, 4)
		after := runLIB(r, n2, fam.f, &faultyWriter{r: r})
		r.Logf("then a fault-free call with n=%d: %d bytes, err=%v", n2, len(after.w.buf), after.err)
		judge(r, after, n2, fam, "fault-free call right after a failed one")
	}
	if fw.fired > 1 {
		r.Probe("several-failures-in-one-run")
	}
	r.Nontrivial = n >= 2
	r.Obs(uint64(n), uint64(rate))
	judge(r, o, n, fam, fmt.Sprintf("tape-drawn failures, rate %d%%", rate))
}

func main() {
	spec := &driver.Spec{
		Property: "C20",
		Engine:   "writer-faults",
		Level:    "fault_enumeration",
		Rule: "enumerated case = (n, weight family) for every n up to 14 (24 thorough) x 6 families, plus larger n (33, 65, 70; thorough: 31..33, 63..65, 100, 128..130) x 2 families: one fault-free execution of tsp.LIB whose output is parsed by an independent TSPLIB parser, then one execution per (write position k, failure kind) for EVERY k below the number of Write calls the fault-free run made and every kind in {transient, permanent} x {0 bytes accepted, short count, full count with error} plus transient failures whose error reports Temporary() == true or is one of the sentinel values io.EOF / io.ErrShortWrite / io.ErrClosedPipe; for very large n (260; thorough 255..257, 300, 513) about 300 evenly spaced positions plus the first and last 20; " +
			"after failed calls a fault-free call is made and parsed (no state may leak from a failed call into the next one); random runs draw n, a weight family (incl. tape-random 64-bit weights) and a per-write failure rate, so several failures land in one execution. A case is non-trivial when LIB performs more than 3 writes (i.e. reaches the buffered weight section); distinct = distinct fingerprints of (writes, bytes, faults fired) sequences.",
		Assumptions: []string{
			"a Write that returns n < len(p) with a nil error violates the io.Writer contract and is never injected",
			"the weight function is deterministic and total on 0 <= j < i < n",
			"n <= 14 (quick) / 24 (thorough) plus a few larger n and the listed weight families (plus tape-random weights) sample the input dimension; the write-failure dimension is enumerated completely for each of them",
		},
		Real:  []string{"tsp.LIB", "text/tabwriter", "fmt"},
		Stubs: []string{"io.Writer (simulated disk: records bytes, fails on schedule)", "weights callback (records its arguments)"},
		Plan: func(tier string) driver.Plan {
			p := driver.Plan{Enum: len(cases(tier)), Random: 60000, Exhaustive: true, WallLimit: 5 * time.Minute,
				ExhaustiveScope: "for every listed (n, weight family) with n <= 130: every Write position x every failure kind; for the very large n (>= 255) the positions are sampled (first/last 20 + ~300 evenly spaced), which is not part of the exhaustive claim"}
			if tier == "thorough" {
				p.Random = 2000000
				p.WallLimit = 20 * time.Minute
			}
			return p
		},
		RunOne: func(r *driver.Run) {
			if r.Case >= 0 {
				fs := families(nil)
				cs := cases(r.Tier)
				c := cs[r.Case%len(cs)]
				runCase(r, c.n, fs[c.fam], c.sampled)
				return
			}
			runRandom(r)
		},
	}
	driver.Main(spec)
}
