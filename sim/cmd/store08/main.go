// Engine record-store (C08): graph6/sparse6 records come back from a simulated store
// that tears, pads, flips, splices and replaces bytes; the decoders must survive.
package main

import (
	"fmt"
	"strings"
	"time"

	"github.com/Tom-Johnston/mamba/graph"
	"mambasim/driver"
	"mambasim/tape"
)

const maxDeclared = 4096

type record struct {
	kind string // "g6" | "s6"
	s    string
	desc string
}

var corpus []record

// ---- own header parser (never asks the decoder under test) --------------------------

// declared returns the vertex count the record declares, and whether the declaration
// is parseable at all.
func declared(kind, s string) (uint64, bool) {
	if kind == "g6" {
		s = strings.TrimPrefix(s, ">>graph6<<")
	} else {
		s = strings.TrimPrefix(s, ">>sparse6<<")
		if len(s) == 0 || s[0] != ':' {
			return 0, false
		}
		s = s[1:]
	}
	ok := func(b byte) bool { return b >= 63 && b <= 126 }
	if len(s) == 0 {
		return 0, false
	}
	if !ok(s[0]) {
		return 0, false
	}
	if s[0] != 126 {
		return uint64(s[0] - 63), true
	}
	if len(s) < 2 || !ok(s[1]) {
		return 0, false
	}
	if s[1] != 126 {
		if len(s) < 4 || !ok(s[2]) || !ok(s[3]) {
			return 0, false
		}
		return uint64(s[1]-63)<<12 | uint64(s[2]-63)<<6 | uint64(s[3]-63), true
	}
	if len(s) < 8 {
		return 0, false
	}
	var n uint64
	for i := 2; i < 8; i++ {
		if !ok(s[i]) {
			return 0, false
		}
		n = n<<6 | uint64(s[i]-63)
	}
	return n, true
}

// ---- corpus ---------------------------------------------------------------------------

func mkGraph(n int, edge func(i, j int) bool) *graph.DenseGraph {
	g := graph.NewDense(n, nil)
	for j := 0; j < n; j++ {
		for i := 0; i < j; i++ {
			if edge(i, j) {
				g.AddEdge(i, j)
			}
		}
	}
	return g
}

func header4(n int) string {
	return string([]byte{126, byte(n>>12&63) + 63, byte(n>>6&63) + 63, byte(n&63) + 63})
}
func header8(n uint64) string {
	b := []byte{126, 126}
	for sh := 30; sh >= 0; sh -= 6 {
		b = append(b, byte(n>>uint(sh)&63)+63)
	}
	return string(b)
}

func buildCorpus() {
	add := func(kind, s, desc string) { corpus = append(corpus, record{kind, s, desc}) }
	addBoth := func(g *graph.DenseGraph, desc string) {
		// an encoder of the tree under test that panics on some graph is not this property's
		// business: that record is simply missing from the corpus
		func() {
			defer func() { recover() }()
			add("g6", graph.Graph6Encode(g), "graph6 of "+desc)
		}()
		func() {
			defer func() { recover() }()
			add("s6", graph.Sparse6Encode(g), "sparse6 of "+desc)
		}()
	}
	// every labelled graph on n <= 4 vertices
	for n := 0; n <= 4; n++ {
		e := n * (n - 1) / 2
		for mask := 0; mask < 1<<uint(e); mask++ {
			g := mkGraph(n, func(i, j int) bool { return mask>>uint(j*(j-1)/2+i)&1 == 1 })
			addBoth(g, fmt.Sprintf("labelled graph n=%d mask=%d", n, mask))
		}
	}
	rng := tape.SplitMix64{S: 12345}
	for _, n := range []int{5, 6, 7, 8, 9, 12, 15, 16, 17, 20, 31, 32, 33, 40, 62, 63, 64, 70, 92, 100, 128} {
		for _, den := range []uint64{0, 1, 3, 8, 16} {
			if n > 70 && den != 1 && den != 8 {
				continue
			}
			g := mkGraph(n, func(i, j int) bool { return rng.Next()%16 < den })
			addBoth(g, fmt.Sprintf("random graph n=%d density=%d/16", n, den))
		}
		g := mkGraph(n, func(i, j int) bool { return j == n-2 && i == 0 }) // vertex n-2 has an edge, n-1 none: the padding special case
		addBoth(g, fmt.Sprintf("n=%d with only edge 0-(n-2)", n))
		g = mkGraph(n, func(i, j int) bool { return j == n-1 })
		addBoth(g, fmt.Sprintf("star centred at n-1, n=%d", n))
	}
	// sparse graphs on up to 4096 vertices (k = 11, 12 bits per vertex number): a few edges among
	// high-numbered vertices, so that the x fields use their top bits
	for _, n := range []int{1025, 2048, 2049, 3000, 4096} {
		func() {
			defer func() { recover() }()
			sg := graph.NewSparse(n, nil)
			for _, e := range [][2]int{{n - 1, n - 2}, {n - 1, n / 2}, {n/2 + 1, 3}, {n - 3, n/2 + 2}, {n - 5, n - 9}, {n/2 + 7, n / 2}, {n - 2, 0}} {
				sg.AddEdge(e[0], e[1])
			}
			add("s6", graph.Sparse6Encode(sg), fmt.Sprintf("sparse6 of a 7-edge graph on %d vertices", n))
		}()
	}
	// optional headers
	for i := 0; i < 40; i += 3 {
		c := corpus[i*7%len(corpus)]
		if c.kind == "g6" {
			add("g6", ">>graph6<<"+c.s, "headered "+c.desc)
		} else {
			add("s6", ">>sparse6<<"+c.s, "headered "+c.desc)
		}
	}
	// hand-assembled long-header records
	for _, n := range []int{0, 1, 62, 63, 64, 100, 1000, 4096} {
		add("g6", header4(n), fmt.Sprintf("graph6 4-byte header n=%d, no body", n))
		add("g6", header4(n)+strings.Repeat("?", 7), fmt.Sprintf("graph6 4-byte header n=%d, short body", n))
		add("s6", ":"+header4(n), fmt.Sprintf("sparse6 4-byte header n=%d, no body", n))
		add("s6", ":"+header4(n)+"~~~~~~~", fmt.Sprintf("sparse6 4-byte header n=%d, all-ones body", n))
		add("s6", ":"+header4(n)+"?@A_bcz", fmt.Sprintf("sparse6 4-byte header n=%d, mixed body", n))
		add("g6", header8(uint64(n)), fmt.Sprintf("graph6 8-byte header n=%d, no body", n))
		add("s6", ":"+header8(uint64(n))+"Bw~?", fmt.Sprintf("sparse6 8-byte header n=%d", n))
	}
	full := graph.Graph6Encode(mkGraph(63, func(i, j int) bool { return (i+j)%3 == 0 }))
	add("g6", full, "graph6 n=63 (4-byte header) complete")
	add("g6", "~~"+strings.Repeat("~", 6), "graph6 8-byte header, n = 2^36-1")
	add("g6", "~~"+"??????", "graph6 8-byte header n=0")
	add("s6", ":~~"+strings.Repeat("~", 6), "sparse6 8-byte header, n = 2^36-1")
}

// ---- oracle -----------------------------------------------------------------------------

func budgetFor(s string, n uint64) int64 { return int64(64*(uint64(len(s))+n*n+n) + 1_000_000) }

func adjacency(g graph.Graph) [][]int {
	out := make([][]int, g.N())
	for v := range out {
		out[v] = g.Neighbours(v)
	}
	return out
}

func sameAdj(a, b [][]int) bool {
	if len(a) != len(b) {
		return false
	}
	for i := range a {
		if len(a[i]) != len(b[i]) {
			return false
		}
		for j := range a[i] {
			if a[i][j] != b[i][j] {
				return false
			}
		}
	}
	return true
}

// wellFormed checks the structural invariants of a decoded graph.
func wellFormed(g graph.Graph, full bool) string {
	n := g.N()
	deg := g.Degrees()
	if len(deg) != n {
		return fmt.Sprintf("Degrees has %d entries for N=%d", len(deg), n)
	}
	sum := 0
	step := 1
	if !full {
		step = 1 + n/40
	}
	for v := 0; v < n; v += step {
		nb := g.Neighbours(v)
		if len(nb) != deg[v] {
			return fmt.Sprintf("Neighbours(%d) has %d entries, Degrees says %d", v, len(nb), deg[v])
		}
		for i, u := range nb {
			if u < 0 || u >= n || u == v {
				return fmt.Sprintf("Neighbours(%d) contains %d (N=%d)", v, u, n)
			}
			if i > 0 && nb[i-1] >= u {
				return fmt.Sprintf("Neighbours(%d) = %v not strictly ascending", v, nb)
			}
			if !g.IsEdge(u, v) || !g.IsEdge(v, u) {
				return fmt.Sprintf("%d in Neighbours(%d) but IsEdge disagrees (asymmetric)", u, v)
			}
		}
		if full {
			cnt := 0
			for u := 0; u < n; u++ {
				if g.IsEdge(u, v) {
					cnt++
				}
			}
			if cnt != deg[v] || g.IsEdge(v, v) {
				return fmt.Sprintf("vertex %d: IsEdge row has %d edges, degree %d, loop=%v", v, cnt, deg[v], g.IsEdge(v, v))
			}
		}
	}
	if step == 1 {
		for _, d := range deg {
			sum += d
		}
		if sum != 2*g.M() {
			return fmt.Sprintf("M() = %d but degree sum is %d", g.M(), sum)
		}
	}
	return ""
}

type eng struct {
	r       *driver.Run
	decodes int64
	// the previous successfully decoded graph and what it looked like when it was returned:
	// a value handed to the caller must not change when another record is decoded later
	prev     graph.Graph
	prevAdj  [][]int
	prevDesc string
}

func (e *eng) checkPrev(after string) {
	if e.prev == nil {
		return
	}
	var now [][]int
	var wf string
	if p := e.r.Call("observers of an earlier result", 50_000_000, func() {
		now = adjacency(e.prev)
		wf = wellFormed(e.prev, e.prev.N() <= 80)
	}); p != "" {
		e.r.Fail("earlier-result-corrupted", "earlier result changed by a later decode", "the graph returned for %s panics when observed after decoding %s: %s", e.prevDesc, after, p)
	}
	if wf != "" || !sameAdj(now, e.prevAdj) {
		e.r.Fail("earlier-result-corrupted", "earlier result changed by a later decode", "the graph returned for %s changed (or became malformed: %q) after decoding %s", e.prevDesc, wf, after)
	}
}

// decodeOne feeds one (possibly damaged) record to the decoder of its kind.
func (e *eng) decodeOne(kind, s, how string) {
	r := e.r
	n, parse := declared(kind, s)
	if parse && n > maxDeclared {
		r.Count("skipped_declared_n_over_bound", 1)
		return
	}
	e.decodes++
	var g graph.Graph
	var err error
	fn := "Graph6Decode"
	if kind == "s6" {
		fn = "Sparse6Decode"
	}
	nn := n
	if !parse {
		nn = 0
	}
	pd := r.Call(fn, budgetFor(s, nn), func() {
		if kind == "g6" {
			var d *graph.DenseGraph
			d, err = graph.Graph6Decode(s)
			g = d
		} else {
			var sp *graph.SparseGraph
			sp, err = graph.Sparse6Decode(s)
			g = sp
		}
	})
	if pd != "" {
		r.Fail("panic", fn+" @ "+pd, "%s(%q) panicked: %s   [%s]", fn, clip(s), pd, how)
	}
	e.checkPrev(fmt.Sprintf("%s(%q)", fn, clip(s)))
	if err != nil {
		r.Count("decode_errors", 1)
		r.Obs(1)
		return
	}
	r.Count("decode_successes", 1)
	if !parse {
		// no parseable size declaration: surviving is all that is demanded, except that a graph returned must still be a graph
		r.Probe("success-on-record-without-parseable-size")
	} else if uint64(g.N()) != n {
		r.Fail("wrong-n", fn, "%s(%q) returned a graph on %d vertices, the record declares %d   [%s]", fn, clip(s), g.N(), n, how)
	}
	var wf string
	full := g.N() <= 80
	if p := r.Call("observers", budgetFor(s, uint64(g.N()))*8, func() { wf = wellFormed(g, full) }); p != "" {
		r.Fail("malformed-graph", fn, "%s(%q) returned a graph whose observers panic: %s   [%s]", fn, clip(s), p, how)
	}
	if wf != "" {
		r.Fail("malformed-graph", fn, "%s(%q) returned a malformed graph: %s   [%s]", fn, clip(s), wf, how)
	}
	r.Obs(2, uint64(g.N()), uint64(g.M()))
	if g.N() <= 150 {
		e.prev, e.prevAdj, e.prevDesc = g, adjacency(g), fmt.Sprintf("%s(%q)", fn, clip(s))
	}
	if g.N() > 300 && !(kind == "s6" && g.M() <= 2000) {
		return
	}
	// fixpoint: encode, decode again, same graph
	var s2 string
	var g2 graph.Graph
	var err2 error
	enc := "Graph6Encode"
	if kind == "s6" {
		enc = "Sparse6Encode"
	}
	if p := r.Call(enc, budgetFor(s, uint64(g.N()))*8, func() {
		if kind == "g6" {
			s2 = graph.Graph6Encode(g)
		} else {
			s2 = graph.Sparse6Encode(g)
		}
	}); p != "" {
		r.Fail("fixpoint", enc, "re-encoding the graph decoded from %q panicked: %s   [%s]", clip(s), p, how)
	}
	if p := r.Call(fn, budgetFor(s2, uint64(g.N())), func() {
		if kind == "g6" {
			var d *graph.DenseGraph
			d, err2 = graph.Graph6Decode(s2)
			g2 = d
		} else {
			var sp *graph.SparseGraph
			sp, err2 = graph.Sparse6Decode(s2)
			g2 = sp
		}
	}); p != "" {
		r.Fail("fixpoint", fn+" of re-encoding @ "+p, "%s(%q) succeeded (n=%d, m=%d) but decoding its re-encoding %q panicked: %s   [%s]", fn, clip(s), g.N(), g.M(), clip(s2), p, how)
	}
	if err2 != nil {
		r.Fail("fixpoint", fn+" of re-encoding", "%s(%q) succeeded but decoding its re-encoding %q fails: %v   [%s]", fn, clip(s), clip(s2), err2, how)
	}
	if !sameAdj(adjacency(g), adjacency(g2)) {
		r.Fail("fixpoint", fn+" of re-encoding differs", "%s(%q) gives n=%d m=%d, but decoding its re-encoding %q gives n=%d m=%d   [%s]", fn, clip(s), g.N(), g.M(), clip(s2), g2.N(), g2.M(), how)
	}
}

func clip(s string) string {
	if len(s) > 80 {
		return s[:60] + "…" + fmt.Sprintf("(%d bytes)", len(s))
	}
	return s
}

var boundaryBytes = []byte{0, 10, 32, 58, 62, 63, 64, 94, 125, 126, 127, 255}

// enumerate: every single storage fault of one corpus record.
func (e *eng) enumerate(c record) {
	r := e.r
	s := c.s
	r.Logf("record %q (%s, %d bytes)", clip(s), c.desc, len(s))
	track := func(kind string) { r.Fault(kind) }
	shown := 0
	try := func(d, how, kind string) {
		mark := len(r.Trace)
		r.Logf("fault %s -> %q", how, clip(d))
		track(kind)
		e.decodeOne(c.kind, d, how)
		shown++
		if r.Tracing && shown > 8 && shown%997 != 0 { // a few damaged records stay in the trace as samples
			r.Trace = r.Trace[:mark]
		}
	}
	e.decodeOne(c.kind, s, "undamaged")
	// misdirected read: the other decoder gets this record
	other := "g6"
	if c.kind == "g6" {
		other = "s6"
	}
	r.Fault("misdirected-read")
	e.decodeOne(other, s, "record of the other format")
	long := len(s) > 200
	for cut := 0; cut < len(s); cut++ {
		if long && cut > 24 && cut < len(s)-24 && cut%11 != 0 {
			continue
		}
		try(s[:cut], fmt.Sprintf("torn write: truncated to %d of %d bytes", cut, len(s)), "torn-write")
	}
	vals := boundaryBytes
	all := len(s) <= 24
	for pos := 0; pos < len(s); pos++ {
		if all {
			for v := 0; v < 256; v++ {
				if byte(v) != s[pos] {
					try(s[:pos]+string([]byte{byte(v)})+s[pos+1:], fmt.Sprintf("byte %d replaced by %d", pos, v), "byte-substitution")
				}
			}
		} else if pos < 12 || pos >= len(s)-4 || (!long && pos%7 == 0) || pos%53 == 0 {
			for _, v := range vals {
				if v != s[pos] {
					try(s[:pos]+string([]byte{v})+s[pos+1:], fmt.Sprintf("byte %d replaced by %d", pos, v), "byte-substitution")
				}
			}
		}
		if all || pos < 12 || pos >= len(s)-4 || (!long && pos%5 == 0) || pos%41 == 0 {
			for bit := 0; bit < 8; bit++ {
				try(s[:pos]+string([]byte{s[pos] ^ 1<<uint(bit)})+s[pos+1:], fmt.Sprintf("bit %d of byte %d flipped", bit, pos), "bit-flip")
			}
		}
	}
	lim := len(s)
	if lim > 40 {
		lim = 40
	}
	for pos := 0; pos < lim; pos++ {
		for l := 1; l <= 3 && pos+l <= len(s); l++ {
			try(s[:pos]+s[pos+l:], fmt.Sprintf("chunk [%d,%d) lost", pos, pos+l), "chunk-lost")
			try(s[:pos+l]+s[pos:], fmt.Sprintf("chunk [%d,%d) written twice", pos, pos+l), "chunk-duplicated")
		}
	}
	for _, pad := range []string{"\n", "?", "~", "~~~~~~~~", "\x00", " ", "??????????"} {
		try(s+pad, fmt.Sprintf("padding %q appended", pad), "padding-appended")
	}
	try(strings.Repeat("\x00", len(s)), "record zeroed", "zeroed")
	r.Nontrivial = len(s) >= 3
}

func (e *eng) random() {
	r := e.r
	t := r.T
	a := corpus[t.Draw(len(corpus))]
	s := a.s
	kind := a.kind
	nf := 1 + t.Draw(3)
	how := "record " + clip(a.s)
	for f := 0; f < nf; f++ {
		var h string
		switch t.Draw(9) {
		case 0:
			if len(s) > 0 {
				cut := t.Draw(len(s))
				s = s[:cut]
				h = fmt.Sprintf("torn at %d", cut)
				r.Fault("torn-write")
			}
		case 1:
			if len(s) > 0 {
				p := t.Draw(len(s))
				v := byte(t.Draw(256))
				s = s[:p] + string([]byte{v}) + s[p+1:]
				h = fmt.Sprintf("byte %d := %d", p, v)
				r.Fault("byte-substitution")
			}
		case 2:
			if len(s) > 0 {
				p := t.Draw(len(s))
				s = s[:p] + string([]byte{s[p] ^ 1<<uint(t.Draw(8))}) + s[p+1:]
				h = fmt.Sprintf("bit flip in byte %d", p)
				r.Fault("bit-flip")
			}
		case 3: // misdirected write: header of this record on the body of another of the same kind
			b := corpus[t.Draw(len(corpus))]
			hl := 1 + t.Draw(9)
			if hl > len(s) {
				hl = len(s)
			}
			bl := t.Draw(len(b.s) + 1)
			s = s[:hl] + b.s[bl:]
			h = fmt.Sprintf("first %d bytes kept, followed by the tail of %q from %d", hl, clip(b.s), bl)
			r.Fault("misdirected-write-splice")
		case 4:
			k := t.Draw(12)
			pad := make([]byte, k)
			for i := range pad {
				pad[i] = []byte{'~', '?', 0, '\n', 'A', 255}[t.Draw(6)]
			}
			s += string(pad)
			h = fmt.Sprintf("%d bytes of padding", k)
			r.Fault("padding-appended")
		case 5:
			if len(s) > 1 {
				p := t.Draw(len(s) - 1)
				l := 1 + t.Draw(len(s)-p-1)
				if t.Chance(1, 2) {
					s = s[:p] + s[p+l:]
					h = fmt.Sprintf("chunk [%d,%d) lost", p, p+l)
					r.Fault("chunk-lost")
				} else {
					s = s[:p+l] + s[p:]
					h = fmt.Sprintf("chunk [%d,%d) duplicated", p, p+l)
					r.Fault("chunk-duplicated")
				}
			}
		case 6: // replaced by tape bytes
			k := t.Draw(16)
			b := make([]byte, k)
			for i := range b {
				if t.Chance(3, 4) {
					b[i] = byte(63 + t.Draw(64))
				} else {
					b[i] = byte(t.Draw(256))
				}
			}
			s = string(b)
			if t.Chance(1, 2) {
				s = ":" + s
			}
			h = "record replaced by tape bytes"
			r.Fault("replaced")
		case 7: // header rewritten: long-form size in front of the body
			body := s
			if kind == "s6" && len(body) > 0 {
				body = body[1:]
			}
			n := []int{0, 1, 2, 3, 17, 62, 63, 64, 200, 4096}[t.Draw(10)]
			hd := header4(n)
			if t.Chance(1, 4) {
				hd = header8(uint64(n))
			}
			s = hd + body
			if kind == "s6" {
				s = ":" + s
			}
			h = fmt.Sprintf("size header rewritten to long form n=%d", n)
			r.Fault("header-rewritten")
		case 8:
			if t.Chance(1, 2) {
				kind = "g6"
			} else {
				kind = "s6"
			}
			h = "read back as " + kind
			r.Fault("misdirected-read")
		}
		if h != "" {
			how += "; " + h
		}
	}
	r.Logf("%s -> %s %q", how, kind, clip(s))
	r.ObsStr(s)
	e.decodeOne(kind, s, how)
	r.Nontrivial = len(s) >= 2
}

const scope = "complete only for corpus records of at most 24 bytes (every truncation, every single-byte substitution with all 256 values, every single-bit flip, every lost/duplicated chunk of 1-3 bytes); longer records get every truncation up to 200 bytes and sampled substitutions / flips, so the run as a whole is not claimed exhaustive"

func main() {
	driver.Main(&driver.Spec{
		Property: "C08",
		Engine:   "record-store",
		Level:    "fault_enumeration",
		Rule: "enumerated case = one record of a corpus written by the encoders (every labelled graph n <= 4, random graphs for 21 sizes up to n = 128 crossing the 62/63 header boundary, padding special cases, headered records, hand-assembled long-header records up to declared n = 4096): the record is read back undamaged, through the other decoder, truncated at EVERY offset (records over 200 bytes: the first and last 24 offsets and every 11th), with EVERY single-byte substitution (all 256 values; a boundary set for records > 24 bytes), EVERY single-bit flip (sampled positions for long records), every lost / duplicated chunk of 1-3 bytes in the first 40 bytes, appended padding, zeroed. " +
			"Random runs apply 1-3 tape-drawn faults (incl. splices of two records, rewritten size headers, replacement by tape bytes). Each decode runs under recover and a logical step budget; after every decode the previously returned graph is observed again and must be unchanged. Non-trivial = damaged record of >= 2-3 bytes; distinct = distinct fingerprints of (damaged bytes, outcome).",
		Assumptions: []string{
			"records whose declared n (computed by the harness's own header parser) exceeds 4096 are skipped: the property's resource bound",
			"records without a parseable size declaration only have to be survived (no panic, terminate); a graph returned must still be well formed and a re-encode fixpoint",
			"well-formedness of graphs with more than 80 vertices is checked on a sample of vertices; the fixpoint is checked for n <= 300",
		},
		Real:  []string{"graph.Graph6Decode", "graph.Sparse6Decode", "graph.Graph6Encode", "graph.Sparse6Encode", "DenseGraph / SparseGraph observers"},
		Stubs: []string{"the record store (strings damaged by the simulator)"},
		Setup: func(tier string) { buildCorpus() },
		Plan: func(tier string) driver.Plan {
			if len(corpus) == 0 {
				buildCorpus()
			}
			if tier == "thorough" {
				return driver.Plan{Enum: len(corpus), Random: 3000000, Exhaustive: false, WallLimit: 25 * time.Minute, ExhaustiveScope: scope}
			}
			return driver.Plan{Enum: len(corpus), Random: 100000, Exhaustive: false, WallLimit: 5 * time.Minute, ExhaustiveScope: scope}
		},
		RunOne: func(r *driver.Run) {
			if len(corpus) == 0 {
				buildCorpus()
			}
			e := &eng{r: r}
			if r.Case >= 0 {
				e.enumerate(corpus[r.Case%len(corpus)])
			} else {
				e.random()
			}
			r.Count("decodes", e.decodes)
		},
	})
}
