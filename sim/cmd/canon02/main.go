// Engine canon-service (C02): one CanonicalStorage / CanonicalOrderedPartition pair
// serves a seeded history of labelling requests (sizes up and down, interrupted
// viability calls that leave the partition mid-search, vertex classes); every answer
// is compared with a fresh call and with a brute-force automorphism oracle.
package main

import (
	"fmt"
	"time"

	"github.com/Tom-Johnston/mamba/disjoint"
	"github.com/Tom-Johnston/mamba/graph"
	"mambasim/driver"
	"mambasim/gutil"
	"mambasim/model"
	"mambasim/tape"
)

const budget = 300_000_000

type answer struct {
	nilResult bool
	perm      []int
	orbits    []int // label per vertex (least member of its orbit)
	gens      [][]int
}

func orbitLabels(ds disjoint.Set, n int) []int {
	if ds == nil {
		return nil
	}
	cp := make(disjoint.Set, len(ds))
	copy(cp, ds)
	lab := make([]int, n)
	first := map[int]int{}
	for i := 0; i < n; i++ {
		rt := cp.Find(i)
		if f, ok := first[rt]; ok {
			lab[i] = f
		} else {
			first[rt] = i
			lab[i] = i
		}
	}
	return lab
}

func capture(n int, perm []int, ds disjoint.Set, gens [][]int) answer {
	if perm == nil && ds == nil && gens == nil {
		return answer{nilResult: true}
	}
	a := answer{perm: append([]int(nil), perm...)}
	if len(ds) >= n {
		a.orbits = orbitLabels(ds, n)
	} else if n > 0 {
		a.orbits = []int{-1} // malformed; reported by the checks below
	}
	for _, g := range gens {
		a.gens = append(a.gens, append([]int(nil), g...))
	}
	return a
}

func eqInts(a, b []int) bool {
	if len(a) != len(b) {
		return false
	}
	for i := range a {
		if a[i] != b[i] {
			return false
		}
	}
	return true
}

func (a answer) equal(b answer) bool {
	if a.nilResult != b.nilResult || !eqInts(a.perm, b.perm) || !eqInts(a.orbits, b.orbits) || len(a.gens) != len(b.gens) {
		return false
	}
	for i := range a.gens {
		if !eqInts(a.gens[i], b.gens[i]) {
			return false
		}
	}
	return true
}

func (a answer) String() string {
	if a.nilResult {
		return "nil,nil,nil (not viable)"
	}
	return fmt.Sprintf("perm=%v orbits=%v generators=%v", a.perm, a.orbits, a.gens)
}

// ---- graph families ------------------------------------------------------------------------

func genGraph(r *driver.Run, n int, prev *model.G) (*model.G, string) {
	t := r.T
	g := model.NewG(n)
	fam := t.Draw(22)
	if n > 16 {
		// large graphs: only families on which both the labelling and the brute-force oracle stay cheap
		fam = []int{2, 4, 5, 9, 10, 11, 8, 17, 19}[t.Draw(9)]
	}
	name := ""
	switch fam {
	case 0:
		name = "edgeless"
	case 1:
		name = "complete"
		for j := 0; j < n; j++ {
			for i := 0; i < j; i++ {
				g.Add(i, j)
			}
		}
	case 2:
		name = "cycle"
		if n >= 3 {
			for i := 0; i < n; i++ {
				g.Add(i, (i+1)%n)
			}
		}
	case 3:
		a := t.Range(0, n)
		name = fmt.Sprintf("complete-bipartite K(%d,%d)", a, n-a)
		for i := 0; i < a; i++ {
			for j := a; j < n; j++ {
				g.Add(i, j)
			}
		}
	case 4:
		name = "two copies of a random graph (+ rest isolated)"
		h := n / 2
		for j := 0; j < h; j++ {
			for i := 0; i < j; i++ {
				if t.Chance(1, 2) {
					g.Add(i, j)
					g.Add(h+i, h+j)
				}
			}
		}
	case 5:
		d := 1 + t.Draw(3)
		name = fmt.Sprintf("circulant with %d random jumps", d)
		for k := 0; k < d && n >= 2; k++ {
			j := 1 + t.Draw(n-1)
			for i := 0; i < n; i++ {
				g.Add(i, (i+j)%n)
			}
		}
	case 17, 18:
		// random regular graph: a circulant scrambled by degree-preserving edge switches
		half := 1 + t.Draw(2)
		for j := 1; j <= half && n >= 2*half+1; j++ {
			for i := 0; i < n; i++ {
				g.Add(i, (i+j)%n)
			}
		}
		sw := t.Draw(4 * n)
		if t.Chance(1, 2) {
			sw = t.Draw(4) // nearly symmetric: most of the circulant's group survives in pieces
		}
		switchEdges(t, g, sw)
		name = fmt.Sprintf("random %d-regular graph (%d switches)", 2*half, sw)
	case 19, 20, 21:
		name = symmetricGraph(t, g)
		sw := t.Draw(3)
		switchEdges(t, g, sw)
		if t.Chance(1, 4) && n >= 2 {
			// one edge toggled
			a, b := t.Draw(n), t.Draw(n)
			if a != b {
				if g.Has(a, b) {
					g.Adj[a] &^= 1 << uint(b)
					g.Adj[b] &^= 1 << uint(a)
				} else {
					g.Add(a, b)
				}
				name += " with one pair toggled"
			}
		}
		name += fmt.Sprintf(" (%d switches)", sw)
	case 13:
		// complete multipartite with random part sizes (large groups, dense)
		part := make([]int, n)
		k := 1 + t.Draw(4)
		for v := range part {
			part[v] = t.Draw(k)
		}
		name = fmt.Sprintf("complete multipartite, parts %v", part)
		for j := 0; j < n; j++ {
			for i := 0; i < j; i++ {
				if part[i] != part[j] {
					g.Add(i, j)
				}
			}
		}
	case 14:
		// disjoint union of cliques, or its complement
		part := make([]int, n)
		k := 1 + t.Draw(4)
		for v := range part {
			part[v] = t.Draw(k)
		}
		co := t.Chance(1, 2)
		name = fmt.Sprintf("union of cliques %v complement=%v", part, co)
		for j := 0; j < n; j++ {
			for i := 0; i < j; i++ {
				if (part[i] == part[j]) != co {
					g.Add(i, j)
				}
			}
		}
	case 15, 16:
		// Cartesian product K_a x K_b (rook graph) on the first a*b vertices, rest isolated or joined to all
		a := 2 + t.Draw(3)
		b := 2 + t.Draw(3)
		for a*b > n && a > 1 {
			a--
		}
		for a*b > n && b > 1 {
			b--
		}
		join := fam == 16
		name = fmt.Sprintf("rook graph K%d x K%d (+%d extra vertices, joined=%v)", a, b, n-a*b, join)
		for x := 0; x < a*b; x++ {
			for y := 0; y < x; y++ {
				if x/b == y/b || x%b == y%b {
					g.Add(x, y)
				}
			}
		}
		if join {
			for x := a * b; x < n; x++ {
				for y := 0; y < x; y++ {
					g.Add(x, y)
				}
			}
		}
	case 10, 11, 12:
		// planted automorphism: a random permutation sigma of small order and a random union of
		// orbits of vertex pairs under <sigma>; such graphs have non-trivial, non-obvious groups
		sigma := make([]int, n)
		rest := t.Perm(n)
		for len(rest) > 0 {
			l := 1 + t.Draw(4)
			if l > len(rest) {
				l = len(rest)
			}
			for i := 0; i < l; i++ {
				sigma[rest[i]] = rest[(i+1)%l]
			}
			rest = rest[l:]
		}
		name = fmt.Sprintf("planted automorphism %v", sigma)
		den := 1 + t.Draw(3)
		done := map[[2]int]bool{}
		for j := 0; j < n; j++ {
			for i := 0; i < j; i++ {
				if done[[2]int{i, j}] {
					continue
				}
				take := t.Draw(4) < den
				a, b := i, j
				for {
					x, y := a, b
					if x > y {
						x, y = y, x
					}
					if done[[2]int{x, y}] {
						break
					}
					done[[2]int{x, y}] = true
					if take {
						g.Add(x, y)
					}
					a, b = sigma[a], sigma[b]
				}
			}
		}
	case 6:
		if prev != nil && prev.N == n {
			name = "relabelled copy of the previous graph"
			p := t.Perm(n)
			for j := 0; j < n; j++ {
				for i := 0; i < j; i++ {
					if prev.Has(i, j) {
						g.Add(p[i], p[j])
					}
				}
			}
			break
		}
		fallthrough
	default:
		den := 1 + t.Draw(7)
		name = fmt.Sprintf("random density %d/8", den)
		for j := 0; j < n; j++ {
			for i := 0; i < j; i++ {
				if t.Draw(8) < den {
					g.Add(i, j)
				}
			}
		}
	}
	if (fam <= 5 || fam >= 10) && t.Chance(2, 3) && n > 1 {
		// relabel structured families so the structure is not aligned with the labels
		p := t.Perm(n)
		h := model.NewG(n)
		for j := 0; j < n; j++ {
			for i := 0; i < j; i++ {
				if g.Has(i, j) {
					h.Add(p[i], p[j])
				}
			}
		}
		g = h
		name += " (relabelled)"
	}
	return g, name
}

// switchEdges performs up to sw degree-preserving edge switches (a-b, c-d become a-d, c-b).
func switchEdges(t *tape.Tape, g *model.G, sw int) {
	n := g.N
	for k := 0; k < sw && n >= 4; k++ {
		a, c := t.Draw(n), t.Draw(n)
		var na, nc []int
		for u := 0; u < n; u++ {
			if g.Has(a, u) {
				na = append(na, u)
			}
			if g.Has(c, u) {
				nc = append(nc, u)
			}
		}
		if len(na) == 0 || len(nc) == 0 {
			continue
		}
		b, d := na[t.Draw(len(na))], nc[t.Draw(len(nc))]
		if a == c || a == d || b == c || b == d || g.Has(a, d) || g.Has(c, b) {
			continue
		}
		g.Adj[a] &^= 1 << uint(b)
		g.Adj[b] &^= 1 << uint(a)
		g.Adj[c] &^= 1 << uint(d)
		g.Adj[d] &^= 1 << uint(c)
		g.Add(a, d)
		g.Add(c, b)
	}
}

// symmetricGraph builds a named vertex-transitive (or nearly so) graph on at most n vertices, the rest
// isolated: deep search trees with many equivalent leaves, where the pruning by discovered
// automorphisms does most of the work.
func symmetricGraph(t *tape.Tape, g *model.G) string {
	n := g.N
	kind := t.Draw(7)
	m := n / 2
	switch {
	case kind == 2 && n >= 4:
		d := 2
		for 1<<uint(d+1) <= n {
			d++
		}
		for x := 0; x < 1<<uint(d); x++ {
			for b := 0; b < d; b++ {
				g.Add(x, x^(1<<uint(b)))
			}
		}
		return fmt.Sprintf("hypercube Q%d", d)
	case kind == 3 && n >= 10:
		for i := 0; i < 5; i++ {
			g.Add(i, (i+1)%5)
			g.Add(i, 5+i)
			g.Add(5+i, 5+(i+2)%5)
		}
		return "Petersen graph"
	case kind == 4 && n >= 9:
		a := 3
		b := n / 3
		if b > 5 {
			b = 3 + t.Draw(3)
		}
		for x := 0; x < a; x++ {
			for y := 0; y < b; y++ {
				g.Add(x*b+y, ((x+1)%a)*b+y)
				if b >= 3 {
					g.Add(x*b+y, x*b+(y+1)%b)
				}
			}
		}
		return fmt.Sprintf("torus C%d x C%d", a, b)
	case kind == 5 && n >= 5:
		q := 5
		if n >= 13 {
			q = 13
		}
		sq := map[int]bool{}
		for x := 1; x < q; x++ {
			sq[x*x%q] = true
		}
		for x := 0; x < q; x++ {
			for y := 0; y < x; y++ {
				if sq[(x-y)%q] {
					g.Add(x, y)
				}
			}
		}
		return fmt.Sprintf("Paley graph on %d vertices", q)
	case kind == 1 && m >= 2:
		for i := 0; i < 2*m; i++ {
			g.Add(i, (i+1)%(2*m))
			g.Add(i, (i+m)%(2*m))
		}
		return fmt.Sprintf("Moebius ladder on %d vertices", 2*m)
	case m >= 3:
		// generalised Petersen graph GP(m, k); k = 1 is the prism
		k := 1
		if kind == 6 && m >= 5 {
			k = 1 + t.Draw((m-1)/2)
		}
		for i := 0; i < m; i++ {
			g.Add(i, (i+1)%m)
			g.Add(i, m+i)
			g.Add(m+i, m+(i+k)%m)
		}
		return fmt.Sprintf("generalised Petersen graph GP(%d,%d)", m, k)
	}
	return "too small for a symmetric family: edgeless"
}

// showcase is a named highly symmetric graph (deep search trees with many equivalent leaves).
type showcase struct {
	n     int
	name  string
	edges [][2]int
}

func drawShowcase(t *tape.Tape) *showcase {
	sc := &showcase{}
	add := func(a, b int) { sc.edges = append(sc.edges, [2]int{a, b}) }
	switch t.Draw(12) {
	case 0, 1, 2:
		m := t.Range(5, 10)
		k := 1 + t.Draw((m-1)/2)
		sc.n, sc.name = 2*m, fmt.Sprintf("generalised Petersen graph GP(%d,%d)", m, k)
		for i := 0; i < m; i++ {
			add(i, (i+1)%m)
			add(i, m+i)
			add(m+i, m+(i+k)%m)
		}
	case 3:
		m := t.Range(3, 9)
		sc.n, sc.name = 2*m, fmt.Sprintf("Moebius ladder on %d vertices", 2*m)
		for i := 0; i < 2*m; i++ {
			add(i, (i+1)%(2*m))
			if i < m {
				add(i, i+m)
			}
		}
	case 4:
		a, b := t.Range(3, 4), t.Range(3, 5)
		sc.n, sc.name = a*b, fmt.Sprintf("torus C%d x C%d", a, b)
		for x := 0; x < a; x++ {
			for y := 0; y < b; y++ {
				add(x*b+y, ((x+1)%a)*b+y)
				add(x*b+y, x*b+(y+1)%b)
			}
		}
	case 5:
		// Kneser / Johnson graphs on the 2-subsets of {0..v-1}
		v := t.Range(5, 6)
		johnson := t.Chance(1, 2)
		var sub [][2]int
		for a := 0; a < v; a++ {
			for b := a + 1; b < v; b++ {
				sub = append(sub, [2]int{a, b})
			}
		}
		sc.n = len(sub)
		sc.name = fmt.Sprintf("Kneser graph K(%d,2)", v)
		if johnson {
			sc.name = fmt.Sprintf("Johnson graph J(%d,2)", v)
		}
		for i := range sub {
			for j := 0; j < i; j++ {
				meet := sub[i][0] == sub[j][0] || sub[i][0] == sub[j][1] || sub[i][1] == sub[j][0] || sub[i][1] == sub[j][1]
				if meet == johnson {
					add(i, j)
				}
			}
		}
	case 6:
		// hypercubes and the folded 5-cube (Clebsch graph)
		d := t.Range(3, 4)
		folded := d == 4 && t.Chance(1, 2)
		sc.n, sc.name = 1<<uint(d), fmt.Sprintf("hypercube Q%d", d)
		for x := 0; x < sc.n; x++ {
			for b := 0; b < d; b++ {
				if y := x ^ (1 << uint(b)); y < x {
					add(x, y)
				}
			}
			if y := x ^ (sc.n - 1); folded && y < x {
				add(x, y)
			}
		}
		if folded {
			sc.name = "Clebsch graph (folded 5-cube)"
		}
	case 7:
		q := []int{13, 17}[t.Draw(2)]
		sc.n, sc.name = q, fmt.Sprintf("Paley graph on %d vertices", q)
		sq := map[int]bool{}
		for x := 1; x < q; x++ {
			sq[x*x%q] = true
		}
		for x := 0; x < q; x++ {
			for y := 0; y < x; y++ {
				if sq[(x-y)%q] {
					add(x, y)
				}
			}
		}
	case 8:
		// Cayley graphs of Z4 x Z4: the rook graph and the Shrikhande graph (same parameters)
		shr := t.Chance(1, 2)
		sc.n, sc.name = 16, "rook graph K4 x K4"
		if shr {
			sc.name = "Shrikhande graph"
		}
		for x := 0; x < 16; x++ {
			for y := 0; y < x; y++ {
				dx, dy := ((x/4-y/4)+4)%4, ((x%4-y%4)+4)%4
				var adj bool
				if shr {
					adj = (dx == 0 && (dy == 1 || dy == 3)) || (dy == 0 && (dx == 1 || dx == 3)) || (dx == 1 && dy == 1) || (dx == 3 && dy == 3)
				} else {
					adj = (dx == 0) != (dy == 0)
				}
				if adj {
					add(x, y)
				}
			}
		}
	case 9:
		// incidence graphs: Heawood (Fano plane), Pappus-like cyclic configurations
		q, blk := 7, []int{0, 1, 3}
		sc.name = "Heawood graph"
		if t.Chance(1, 2) {
			q, blk = 9, []int{0, 1, 3}
			sc.name = "incidence graph of the cyclic configuration {0,1,3} mod 9"
		}
		sc.n = 2 * q
		for l := 0; l < q; l++ {
			for _, b := range blk {
				add((l+b)%q, q+l)
			}
		}
	default:
		// circulants with one to three jumps
		n := t.Range(7, 18)
		jumps := map[int]bool{1 + t.Draw(n/2): true}
		for k := t.Draw(3); k > 0; k-- {
			jumps[1+t.Draw(n/2)] = true
		}
		var js []int
		for j := 1; j <= n/2; j++ {
			if jumps[j] {
				js = append(js, j)
			}
		}
		sc.n, sc.name = n, fmt.Sprintf("circulant C%d%v", n, js)
		for i := 0; i < n; i++ {
			for _, j := range js {
				add(i, (i+j)%n)
			}
		}
	}
	// modifiers: complement, two disjoint copies, an extra isolated or universal vertex
	switch t.Draw(8) {
	case 0:
		has := map[[2]int]bool{}
		for _, e := range sc.edges {
			a, b := e[0], e[1]
			if a > b {
				a, b = b, a
			}
			has[[2]int{a, b}] = true
		}
		sc.edges = nil
		for b := 0; b < sc.n; b++ {
			for a := 0; a < b; a++ {
				if !has[[2]int{a, b}] {
					add(a, b)
				}
			}
		}
		sc.name = "complement of " + sc.name
	case 1:
		if 2*sc.n <= 26 {
			k := len(sc.edges)
			for i := 0; i < k; i++ {
				add(sc.edges[i][0]+sc.n, sc.edges[i][1]+sc.n)
			}
			sc.n *= 2
			sc.name = "two copies of " + sc.name
		}
	case 2:
		if sc.n < 26 {
			if t.Chance(1, 2) {
				for v := 0; v < sc.n; v++ {
					add(v, sc.n)
				}
				sc.name += " + universal vertex"
			} else {
				sc.name += " + isolated vertex"
			}
			sc.n++
		}
	}
	return sc
}

func (sc *showcase) build(t *tape.Tape) (*model.G, string) {
	g := model.NewG(sc.n)
	p := t.Perm(sc.n)
	for _, e := range sc.edges {
		if p[e[0]] != p[e[1]] {
			g.Add(p[e[0]], p[e[1]])
		}
	}
	sw := 0
	if t.Chance(1, 4) {
		sw = 1 + t.Draw(2)
		switchEdges(t, g, sw)
	}
	return g, fmt.Sprintf("%s relabelled by %v (%d switches)", sc.name, p, sw)
}

func toDense(g *model.G) *graph.DenseGraph {
	d := graph.NewDense(g.N, nil)
	for j := 0; j < g.N; j++ {
		for i := 0; i < j; i++ {
			if g.Has(i, j) {
				d.AddEdge(i, j)
			}
		}
	}
	return d
}

func neighbours(g *model.G) [][]int {
	nb := make([][]int, g.N)
	for v := 0; v < g.N; v++ {
		nb[v] = []int{}
		for u := 0; u < g.N; u++ {
			if g.Has(u, v) {
				nb[v] = append(nb[v], u)
			}
		}
	}
	return nb
}

// ---- brute force ------------------------------------------------------------------------------

func isPerm(p []int, n int) bool {
	if len(p) != n {
		return false
	}
	seen := make([]bool, n)
	for _, v := range p {
		if v < 0 || v >= n || seen[v] {
			return false
		}
		seen[v] = true
	}
	return true
}

func checkBrute(r *driver.Run, g *model.G, classVec []int, a answer, what string) {
	n := g.N
	auts := model.AutomorphismsLimit(g, classVec, 60000)
	if auts == nil {
		r.Probe("group-too-large-for-brute-force")
		return
	}
	// orbits of Aut(g)
	lab := make([]int, n)
	for i := range lab {
		lab[i] = i
	}
	for _, p := range auts {
		for v := 0; v < n; v++ {
			if lab[p[v]] < lab[v] {
				lab[v] = lab[p[v]]
			} else {
				lab[p[v]] = lab[v]
			}
		}
	}
	for changed := true; changed; { // settle to least member
		changed = false
		for _, p := range auts {
			for v := 0; v < n; v++ {
				if lab[p[v]] != lab[v] {
					m := lab[v]
					if lab[p[v]] < m {
						m = lab[p[v]]
					}
					lab[v], lab[p[v]] = m, m
					changed = true
				}
			}
		}
	}
	if !eqInts(a.orbits, lab) {
		r.Fail("orbits", "orbit partition differs from Aut(g)", "%s: returned orbits %v, the orbits of the automorphism group (%d elements) are %v; graph %s classes %v", what, a.orbits, len(auts), lab, gutil.G6(g), classVec)
	}
	isAut := func(p []int) bool {
		if !isPerm(p, n) {
			return false
		}
		for j := 0; j < n; j++ {
			if classVec != nil && classVec[p[j]] != classVec[j] {
				return false
			}
			for i := 0; i < j; i++ {
				if g.Has(i, j) != g.Has(p[i], p[j]) {
					return false
				}
			}
		}
		return true
	}
	for i, gen := range a.gens {
		if !isAut(gen) {
			r.Fail("generator", "generator is not an automorphism", "%s: generator #%d %v is not a (class-preserving) automorphism of %s classes %v", what, i, gen, gutil.G6(g), classVec)
		}
	}
	// closure of the generators must be all of Aut(g)
	if len(auts) <= 50000 {
		key := func(p []int) string {
			b := make([]byte, len(p))
			for i, v := range p {
				b[i] = byte(v)
			}
			return string(b)
		}
		id := make([]int, n)
		for i := range id {
			id[i] = i
		}
		seen := map[string]bool{key(id): true}
		queue := [][]int{id}
		for len(queue) > 0 && len(seen) <= len(auts) {
			p := queue[0]
			queue = queue[1:]
			for _, gen := range a.gens {
				q := make([]int, n)
				for v := 0; v < n; v++ {
					q[v] = gen[p[v]]
				}
				if k := key(q); !seen[k] {
					seen[k] = true
					queue = append(queue, q)
				}
			}
		}
		if len(seen) != len(auts) {
			r.Fail("generators-incomplete", "generators do not generate Aut(g)", "%s: the %d generators %v generate a group of order %d, |Aut(g)| = %d; graph %s classes %v", what, len(a.gens), a.gens, len(seen), len(auts), gutil.G6(g), classVec)
		}
		if len(auts) > 1 {
			r.Probe("nontrivial-automorphism-group")
		}
	}
}

// ---- the service --------------------------------------------------------------------------------

func runOne(r *driver.Run) {
	t := r.T
	N := t.Range(1, 9)
	if t.Chance(1, 6) {
		N = t.Range(10, 16) // larger graphs: code paths that depend on cell sizes > 8..12
		r.Probe("service-capacity-10-to-16")
	} else if t.Chance(1, 25) {
		N = t.Range(21, 28) // cells of more than 20 vertices (block size of the hand-written stable sort)
		r.Probe("service-capacity-21-to-28")
	}
	// showcase history: one named symmetric graph, asked again and again under fresh
	// relabellings (the search tree, and with it which automorphisms are met and which
	// branches are pruned by them, depends on the labelling)
	var show *showcase
	if t.Chance(1, 6) {
		show = drawShowcase(t)
		N = show.n + t.Draw(3)
		r.Probe("showcase-history")
	}
	M := N * (N - 1) / 2
	nreq := t.Range(1, 14)
	if show != nil && nreq > 8 {
		nreq = 8
	}
	classRate := []int{0, 0, 1, 4}[t.Draw(4)]
	interruptRate := []int{0, 2, 4}[t.Draw(3)]
	r.Logf("service capacity N=%d M=%d, %d requests, class-rate=%d/8 interrupt-rate=%d/8", N, M, nreq, classRate, interruptRate)
	var storage *graph.CanonicalStorage
	var op *graph.CanonicalOrderedPartition
	options := new(graph.CanonicalOptions)
	r.Must("NewStorage", budget, func() { storage = graph.NewStorage(N, M) })
	r.Must("NewOrderedPartition", budget, func() { op = graph.NewOrderedPartition(N, M, nil) })
	var prevFull struct {
		set     bool
		n       int
		perm    []int
		ds      disjoint.Set
		gens    [][]int
		was     answer
		changed string
	}
	var prev *model.G
	prevN := 0
	interrupted, reused, sizeChanges := 0, 0, 0
	for q := 0; q < nreq; q++ {
		n := t.Range(1, N)
		var g *model.G
		var fam string
		if show != nil && !t.Chance(1, 5) {
			n = show.n
			g, fam = show.build(t)
		} else {
			g, fam = genGraph(r, n, prev)
		}
		m := g.M()
		nb := neighbours(g)
		// vertex classes: an ordered partition of the vertex set, members ascending at first
		var classes [][]int
		var classVec []int
		if classRate > 0 && t.Draw(8) < classRate {
			k := 1 + t.Draw(n)
			classVec = make([]int, n)
			classes = make([][]int, k)
			for v := 0; v < n; v++ {
				c := t.Draw(k)
				classVec[v] = c
				classes[c] = append(classes[c], v)
			}
			// drop empty classes, keep order
			var cl [][]int
			remap := map[int]int{}
			for c, vs := range classes {
				if len(vs) > 0 {
					remap[c] = len(cl)
					cl = append(cl, vs)
				}
			}
			classes = cl
			for v := range classVec {
				classVec[v] = remap[classVec[v]]
			}
			if len(classes) >= 2 {
				r.Probe("request-with-two-or-more-vertex-classes")
			}
			// a class is a set: half of the requests list its members in an arbitrary order
			if t.Chance(1, 2) {
				for _, vs := range classes {
					p := t.Perm(len(vs))
					w := make([]int, len(vs))
					for i := range vs {
						w[i] = vs[p[i]]
					}
					copy(vs, w)
				}
				r.Probe("request-with-classes-listed-in-arbitrary-order")
			}
		}
		viab := interruptRate > 0 && t.Draw(8) < interruptRate && n >= 2
		var bits uint
		if viab {
			bits = uint(t.Draw(1<<uint(n-1))) | 1<<uint(t.Draw(n-1))
		}
		what := fmt.Sprintf("request %d: n=%d %s %s classes=%v viability=%v bits=%b", q, n, fam, gutil.G6(g), classes, viab, bits)
		r.Logf("%s", what)
		if n != prevN && q > 0 {
			sizeChanges++
		}
		prevN = n
		skip := false
		body := func() {
			// --- the reused pair
			var got answer
			cc := copyClasses(classes)
			r.Must("Reset+CanonicalIsomorphAllocated(reused)", budget, func() {
				op.Reset(n, m, cc)
				options.CheckViability = viab
				options.ViableBits = bits
				p, ds, gens := graph.CanonicalIsomorphAllocated(n, m, nb, op, storage, options)
				got = capture(n, p, ds, gens)
			})
			reused++
			// --- fresh storage, same call
			var fresh answer
			r.Must("CanonicalIsomorphAllocated(fresh)", budget, func() {
				fop := graph.NewOrderedPartition(n, m, copyClasses(classes))
				fo := &graph.CanonicalOptions{CheckViability: viab, ViableBits: bits}
				p, ds, gens := graph.CanonicalIsomorphAllocated(n, m, neighbours(g), fop, graph.NewStorage(n, m), fo)
				fresh = capture(n, p, ds, gens)
			})
			if !got.equal(fresh) {
				r.Fail("reuse-differs", "reused storage differs from fresh call", "%s: with the reused storage/partition: %s; with fresh ones: %s", what, got, fresh)
			}
			if !viab {
				// --- the convenience entry point must agree as well
				var full answer
				r.Must("CanonicalIsomorphFull", budget, func() {
					p, ds, gens := graph.CanonicalIsomorphFull(toDense(g), copyClasses(classes))
					full = capture(n, p, ds, gens)
					// what CanonicalIsomorphFull returned for the PREVIOUS request belongs to the caller
					// and must not have been touched by this call
					if prevFull.set {
						now := capture(prevFull.n, prevFull.perm, prevFull.ds, prevFull.gens)
						if !now.equal(prevFull.was) {
							prevFull.changed = fmt.Sprintf("was %s, now %s", prevFull.was, now)
						}
					}
					prevFull.set, prevFull.n, prevFull.perm, prevFull.ds, prevFull.gens, prevFull.was = true, n, p, ds, gens, full
				})
				if prevFull.changed != "" {
					r.Fail("earlier-result-corrupted", "result of an earlier CanonicalIsomorphFull call changed", "%s: the values returned by the previous CanonicalIsomorphFull call changed during this call: %s", what, prevFull.changed)
				}
				if !got.equal(full) {
					r.Fail("reuse-differs", "reused storage differs from CanonicalIsomorphFull", "%s: reused: %s; CanonicalIsomorphFull: %s", what, got, full)
				}
			}
			if got.nilResult {
				if !viab {
					r.Fail("nil-result", "nil result without CheckViability", "%s: nil,nil,nil returned although CheckViability was not set", what)
				}
				interrupted++
				r.Fault("interrupted-call-left-partition-mid-search")
				r.Logf("   -> not viable: early return, partition left mid-search")
				r.Obs(0)
				skip = true
				return
			}
			if !isPerm(got.perm, n) {
				r.Fail("perm", "result is not a permutation", "%s: perm = %v", what, got.perm)
			}
			if len(got.orbits) != n {
				r.Fail("orbits", "orbit set has the wrong size", "%s: orbits %v", what, got.orbits)
			}
			if n <= 28 {
				checkBrute(r, g, classVec, got, what)
			}
			r.ObsInts(got.perm)
			r.ObsInts(got.orbits)
			r.Logf("   -> %s", got)
		}
		body()
		_ = skip
		prev = g
	}
	r.Count("requests", int64(nreq))
	if interrupted > 0 && reused > interrupted {
		r.Probe("reuse-after-interrupted-call")
	}
	r.Nontrivial = nreq >= 3 && sizeChanges >= 1
}

func copyClasses(c [][]int) [][]int {
	if c == nil {
		return nil
	}
	out := make([][]int, len(c))
	for i := range c {
		out[i] = append([]int(nil), c[i]...)
	}
	return out
}

func main() {
	driver.Main(&driver.Spec{
		Property: "C02",
		// the labelling search is exponential in the worst case and C02 says nothing about cost
		BudgetInconclusive: true,
		Engine:             "canon-service",
		Level:              "exploration",
		Rule: "a case is one seeded history of up to 14 labelling requests through ONE reused CanonicalStorage/CanonicalOrderedPartition/CanonicalOptions triple of tape-chosen capacity N <= 9 (one history in six: 10 <= N <= 16; one in 30: 21 <= N <= 28; one in six is a 'showcase': a generalised Petersen graph GP(5..10,k), Moebius ladder, torus, Kneser/Johnson graph, hypercube, Clebsch, Paley, rook/Shrikhande, Heawood or circulant graph - possibly complemented, doubled or with an extra isolated/universal vertex, up to 26 vertices - asked again and again under fresh relabellings): graph sizes go up and down within capacity; families: edgeless, complete, cycle, complete bipartite, complete multipartite, unions of cliques and their complements, rook graphs, random regular graphs (half of them only 0-3 switches away from a circulant), named symmetric graphs (hypercubes, Petersen and generalised Petersen graphs, prisms, Moebius ladders, tori, Paley graphs) with 0-2 edge switches and sometimes one pair toggled, two copies of a random graph, circulants, planted automorphisms, relabelled copy of the previous graph, random densities; some requests carry vertex classes (an ordered partition; the members of a class are listed ascending or, in half of these requests, in an arbitrary order) and some are 'interrupted' (CheckViability with tape-drawn ViableBits, which may return early and leave the partition mid-search before the next Reset). " +
			"Each answer must equal the same call on fresh storage and CanonicalIsomorphFull (perm, orbit partition, generator list), perm must be a permutation, and for groups of up to 60000 elements brute force over all (class-preserving) automorphisms must confirm orbits = orbits of Aut(g), every generator in Aut(g), closure of the generators = Aut(g). Non-trivial = at least 3 requests with at least one size change; distinct = distinct fingerprints of the observed answers.",
		Assumptions: []string{
			"the caller protocol of the search package is followed: Reset(n, m, classes) before every call, sizes within the capacity the pair was created with, n >= 1",
			"vertex classes are passed as lists forming an ordered partition of the vertex set (every vertex in exactly one class; members in any order)",
			"brute force is limited to |Aut(g)| <= 60000 (larger groups, e.g. complete / edgeless graphs on >= 9 vertices, are compared with the fresh call only)",
			"the 'orbits = Aut(g)' half is a per-input statement; it is checked on the graphs the histories visit",
		},
		Real:  []string{"graph.CanonicalIsomorphAllocated", "graph.CanonicalIsomorphFull", "graph.NewStorage / NewOrderedPartition / Reset", "disjoint.Set"},
		Stubs: []string{"the caller that owns and reuses the storage (the role graph/search plays)"},
		Plan: func(tier string) driver.Plan {
			if tier == "thorough" {
				return driver.Plan{Random: 1000000, WallLimit: 40 * time.Minute}
			}
			return driver.Plan{Random: 40000, WallLimit: 5 * time.Minute}
		},
		RunOne: runOne,
	})
}
