// Engine checkpoint (C04): a worker owns a search iterator; the simulator crashes it
// between any two Next calls and restarts it from the newest checkpoint, forks it,
// chains save/load/advance, and feeds Load through readers that behave legally but
// unusually. Oracle: the uninterrupted run of the same configuration.
package main

import (
	"bytes"
	"fmt"
	"io"
	"time"

	"github.com/Tom-Johnston/mamba/graph"
	"github.com/Tom-Johnston/mamba/graph/search"
	"mambasim/driver"
	"mambasim/gutil"
	"mambasim/model"
)

const budget = 400_000_000

type config struct {
	n, a, m   int
	pred      int // -1 none
	placement int
}

var preds = model.Preds()

func (c config) String() string {
	p := "none"
	if c.pred >= 0 {
		p = preds[c.pred].Name + "/" + []string{"preprune", "prune"}[c.placement]
	}
	return fmt.Sprintf("n=%d a=%d m=%d predicate=%s", c.n, c.a, c.m, p)
}

func (c config) funcs() (pre, pru func(*graph.DenseGraph) bool) {
	never := func(g *graph.DenseGraph) bool { return false }
	pre, pru = never, never
	if c.pred >= 0 {
		f := preds[c.pred].F
		pr := func(g *graph.DenseGraph) bool { return !f(gutil.ToModel(g)) }
		if c.placement == 0 {
			pre = pr
		} else {
			pru = pr
		}
	}
	return
}

// ---- simulated I/O ------------------------------------------------------------------

// chunkWriter is the simulated disk for Save: records every Write as a chunk.
type chunkWriter struct {
	buf    bytes.Buffer
	chunks int
}

func (w *chunkWriter) Write(p []byte) (int, error) {
	w.chunks++
	return w.buf.Write(p)
}

// slowReader delivers stored bytes in legal-but-unusual ways.
type slowReader struct {
	data []byte
	mode int // 0 plain, 1 one byte at a time, 2 tape-less pseudo-random short reads, 3 data together with io.EOF, 4 zero-length reads interspersed
	pos  int
	k    uint64
	zero bool
}

func (s *slowReader) Read(p []byte) (int, error) {
	if s.pos >= len(s.data) {
		return 0, io.EOF
	}
	if len(p) == 0 {
		return 0, nil
	}
	n := len(p)
	switch s.mode {
	case 1:
		n = 1
	case 2:
		s.k = s.k*6364136223846793005 + 1442695040888963407
		n = 1 + int(s.k>>33)%7
	case 4:
		s.zero = !s.zero
		if s.zero {
			return 0, nil // legal: "Read may return 0, nil"; callers must retry
		}
		n = 3
	}
	if n > len(p) {
		n = len(p)
	}
	if n > len(s.data)-s.pos {
		n = len(s.data) - s.pos
	}
	copy(p, s.data[s.pos:s.pos+n])
	s.pos += n
	if s.mode == 3 && s.pos == len(s.data) {
		return n, io.EOF
	}
	return n, nil
}

var readerNames = []string{"plain", "one-byte", "short-reads", "data+EOF", "zero-length-reads"}

// ---- helpers --------------------------------------------------------------------------

type eng struct {
	disk *chunkWriter
	r    *driver.Run
	c    config
	R    []string // uninterrupted output (independent graph6 of each value)
	pre  func(*graph.DenseGraph) bool
	pru  func(*graph.DenseGraph) bool
}

func (e *eng) newIter() *search.GraphIterator {
	var it *search.GraphIterator
	e.r.Must("WithPruning", budget, func() { it = search.WithPruning(e.c.n, e.c.a, e.c.m, e.pre, e.pru) })
	return it
}

// next advances it and returns the graph6 of the value ("" when exhausted).
func (e *eng) next(it *search.GraphIterator, who string) string {
	var ok bool
	e.r.Must("Next("+who+")", budget, func() { ok = it.Next() })
	if !ok {
		return ""
	}
	var wf string
	var mg *model.G
	e.r.Must("Value("+who+")", budget, func() {
		g := it.Value()
		wf = gutil.DenseWellFormed(g, e.c.n)
		if wf == "" {
			mg = gutil.ToModel(g)
		}
	})
	if wf != "" {
		e.r.Fail("malformed-value", who, "%s: %s yielded a malformed graph: %s", e.c, who, wf)
	}
	return gutil.G6(mg)
}

// current returns the graph6 of it.Value() without advancing (only meaningful right after a
// Next that returned true).
func (e *eng) current(it *search.GraphIterator, who string) string {
	var wf string
	var mg *model.G
	e.r.Must("Value("+who+")", budget, func() {
		g := it.Value()
		wf = gutil.DenseWellFormed(g, e.c.n)
		if wf == "" {
			mg = gutil.ToModel(g)
		}
	})
	if wf != "" {
		e.r.Fail("original-disturbed", who, "%s: Value() of %s is malformed after Save: %s", e.c, who, wf)
	}
	return gutil.G6(mg)
}

func (e *eng) reference() {
	it := e.newIter()
	for {
		s := e.next(it, "reference")
		if s == "" {
			break
		}
		e.R = append(e.R, s)
		if len(e.R) > 400000 {
			e.r.Fail("runaway", "reference", "%s: more than 400000 graphs", e.c)
		}
	}
	// a second uninterrupted run must agree (the oracle itself must be deterministic)
	it2 := e.newIter()
	for i := 0; ; i++ {
		s := e.next(it2, "reference-2")
		if s == "" {
			if i != len(e.R) {
				e.r.Fail("nondeterministic-reference", "reference", "%s: two uninterrupted runs differ in length (%d vs %d)", e.c, len(e.R), i)
			}
			break
		}
		if i >= len(e.R) || e.R[i] != s {
			e.r.Fail("nondeterministic-reference", "reference", "%s: two uninterrupted runs differ at position %d", e.c, i)
		}
	}
}

func (e *eng) save(it *search.GraphIterator, who string) []byte {
	// the worker reuses one writer object for all its checkpoints (reset in between), as a
	// caller holding one buffer or file handle would
	if e.disk == nil {
		e.disk = &chunkWriter{}
	}
	w := e.disk
	w.buf.Reset()
	w.chunks = 0
	e.r.Must("Save("+who+")", budget, func() { it.Save(w) })
	if w.chunks > 1 {
		e.r.Probe("save-in-several-writes")
	}
	e.r.Count("checkpoints", 1)
	return append([]byte(nil), w.buf.Bytes()...)
}

func (e *eng) load(data []byte, mode int, who string) *search.GraphIterator {
	var it *search.GraphIterator
	rd := &slowReader{data: append([]byte(nil), data...), mode: mode, k: uint64(len(data))}
	e.r.Must("Load("+who+", reader="+readerNames[mode]+")", budget, func() { it = search.Load(rd, e.pre, e.pru) })
	if mode != 0 {
		e.r.Fault("reader-" + readerNames[mode])
	}
	if it == nil {
		e.r.Fail("load-nil", who, "%s: Load returned nil", e.c)
	}
	return it
}

// expect checks that it, being at position pos, yields exactly R[pos:] and then false for ever.
func (e *eng) drain(it *search.GraphIterator, pos int, who string) {
	for i := pos; ; i++ {
		s := e.next(it, who)
		if i == len(e.R) {
			if s != "" {
				e.r.Fail("extra-output", who, "%s: %s yields %s after the %d graphs the uninterrupted run produces", e.c, who, s, len(e.R))
			}
			for k := 0; k < 2; k++ {
				if s2 := e.next(it, who); s2 != "" {
					e.r.Fail("resurrected", who, "%s: %s reported exhaustion and then yielded %s", e.c, who, s2)
				}
			}
			return
		}
		if s != e.R[i] {
			got := s
			if s == "" {
				got = "<exhausted>"
			}
			e.r.Fail("wrong-suffix", who, "%s: %s at position %d yields %s, the uninterrupted run yields %s there (%d graphs in all)", e.c, who, i, got, e.R[i], len(e.R))
		}
	}
}

// ---- enumerated: every crash point of one configuration ------------------------------

func (e *eng) everyCrashPoint() {
	r := e.r
	e.reference()
	r.Logf("config %s: uninterrupted run yields %d graphs", e.c, len(e.R))
	master := e.newIter()
	L := len(e.R)
	stride := 1
	if L > 3000 {
		// very long outputs (n = 10): crash points are sampled; not part of the exhaustive claim
		stride = L / 40
		r.Probe("crash-points-sampled-for-very-long-output")
	}
	for k := 0; k <= L+1; k++ {
		if stride > 1 && k > 5 && k < L-5 && k%stride != 0 {
			// keep the original in step without a crash here
			if s := e.next(master, "original"); s != e.R[k] {
				r.Fail("wrong-suffix", "original", "%s: the original yields %q at position %d, the reference %q", e.c, s, k, e.R[k])
			}
			continue
		}
		// master is at position min(k, L) having made k Next calls (the (L+1)-th returned false)
		mark := len(r.Trace)
		mode := k % len(readerNames)
		r.Logf("crash point k=%d: Save after %d Next calls, restart through a %s reader", k, k, readerNames[mode])
		data := e.save(master, fmt.Sprintf("original after %d Next", k))
		if k >= 1 && k <= L {
			// saving must not disturb the original: its current value is still the graph it yielded last
			if cur := e.current(master, "original"); cur != e.R[k-1] {
				r.Fail("original-disturbed", "Value() after Save", "%s: after Save at position %d the original's Value() is %s, the graph it yielded last is %s", e.c, k, cur, e.R[k-1])
			}
		}
		r.Fault("crash-restart")
		pos := k
		if pos > L {
			pos = L
		}
		clone := e.load(data, mode, fmt.Sprintf("restart at k=%d", k))
		e.drain(clone, pos, fmt.Sprintf("iterator restored from the checkpoint taken after %d Next calls", k))
		if k == 0 {
			r.Probe("save-before-first-next")
		}
		if k >= L {
			r.Probe("save-at-or-after-exhaustion")
		}
		// the original must be undisturbed by Save: advance it one step and compare
		if k <= L {
			s := e.next(master, "original")
			want := ""
			if k < L {
				want = e.R[k]
			}
			if s != want {
				r.Fail("original-disturbed", "original after Save", "%s: after Save at position %d the original yields %q, the uninterrupted run yields %q", e.c, k, s, want)
			}
		}
		if r.Tracing && k > 2 {
			r.Trace = r.Trace[:mark]
		}
		r.Count("crash_points", 1)
	}
	r.Nontrivial = L >= 2
	r.Obs(uint64(L))
}

// ---- random: chains, forks, several workers -----------------------------------------

type worker struct {
	it    *search.GraphIterator
	pos   int // index in R of the next graph; L+1 once false has been seen
	name  string
	fresh bool // the last operation on it was a Next that returned true (so Value() is defined)
}

type ckpt struct {
	data []byte
	pos  int
	name string
}

func (e *eng) chain() {
	r := e.r
	t := r.T
	e.reference()
	L := len(e.R)
	r.Logf("config %s: uninterrupted run yields %d graphs", e.c, L)
	ws := []*worker{{it: e.newIter(), name: "w0"}}
	var disk []ckpt
	nops := t.Range(1, 60)
	nextName := 1
	restores, forks := 0, 0
	stepW := func(w *worker) {
		s := e.next(w.it, w.name)
		want := ""
		if w.pos < L {
			want = e.R[w.pos]
		}
		if s != want {
			r.Fail("wrong-suffix", "chain", "%s: %s at position %d yields %q, the uninterrupted run yields %q (history in the trace)", e.c, w.name, w.pos, s, want)
		}
		if w.pos <= L {
			w.pos++
		}
		w.fresh = s != ""
	}
	for op := 0; op < nops; op++ {
		w := ws[t.Draw(len(ws))]
		switch t.Weighted([]int{6, 3, 3, 2, 1, 1, 1}) {
		case 0: // step (1..many)
			k := 1
			if t.Chance(1, 3) {
				k = 1 + t.Draw(L+2)
			}
			r.Logf("%s: %d x Next from position %d", w.name, k, w.pos)
			for i := 0; i < k; i++ {
				stepW(w)
			}
		case 1: // checkpoint
			p := w.pos
			if p > L {
				p = L
			}
			disk = append(disk, ckpt{e.save(w.it, w.name), p, fmt.Sprintf("ckpt%d(%s@%d)", len(disk), w.name, p)})
			if w.fresh && w.pos >= 1 && w.pos <= L {
				if cur := e.current(w.it, w.name); cur != e.R[w.pos-1] {
					r.Fail("original-disturbed", "Value() after Save", "%s: after Save at position %d the Value() of %s is %s, the graph it yielded last is %s", e.c, w.pos, w.name, cur, e.R[w.pos-1])
				}
			}
			r.Logf("%s: Save at position %d -> %s (%d bytes)", w.name, p, disk[len(disk)-1].name, len(disk[len(disk)-1].data))
			if t.Chance(1, 4) {
				d2 := e.save(w.it, w.name)
				disk = append(disk, ckpt{d2, p, fmt.Sprintf("ckpt%d(%s@%d,second save)", len(disk), w.name, p)})
				r.Logf("%s: Save again at the same position", w.name)
				r.Probe("save-twice")
			}
		case 2: // crash + restart from the newest checkpoint
			if len(disk) == 0 {
				continue
			}
			c := disk[len(disk)-1]
			mode := t.Draw(len(readerNames))
			r.Logf("%s: CRASH at position %d (iterator abandoned); restart from newest checkpoint %s through a %s reader", w.name, w.pos, c.name, readerNames[mode])
			r.Fault("crash-restart")
			w.it = e.load(c.data, mode, c.name)
			w.pos = c.pos
			w.fresh = false
			restores++
		case 3: // fork: clone and keep the original
			if len(ws) >= 4 {
				continue
			}
			p := w.pos
			if p > L {
				p = L
			}
			data := e.save(w.it, w.name)
			mode := t.Draw(len(readerNames))
			nw := &worker{it: e.load(data, mode, "fork of "+w.name), pos: p, name: fmt.Sprintf("w%d", nextName)}
			nextName++
			ws = append(ws, nw)
			r.Logf("%s: FORK at position %d -> %s (original kept), %s reader", w.name, p, nw.name, readerNames[mode])
			r.Fault("fork")
			forks++
		case 4: // restart from an older checkpoint (bytes are immutable: loading twice must work)
			if len(disk) == 0 {
				continue
			}
			c := disk[t.Draw(len(disk))]
			mode := t.Draw(len(readerNames))
			r.Logf("%s: restart from older checkpoint %s through a %s reader", w.name, c.name, readerNames[mode])
			r.Fault("restart-from-older-checkpoint")
			w.it = e.load(c.data, mode, c.name)
			w.pos = c.pos
			w.fresh = false
			restores++
		case 5: // drain one worker completely, keep it (it must stay exhausted)
			r.Logf("%s: drained from position %d", w.name, w.pos)
			for w.pos <= L {
				stepW(w)
			}
			stepW(w)
		case 6: // a worker is dropped
			if len(ws) > 1 {
				for i := range ws {
					if ws[i] == w {
						ws = append(ws[:i], ws[i+1:]...)
						break
					}
				}
				r.Logf("%s: dropped", w.name)
			}
		}
	}
	// at the end every live worker must still be on the reference sequence
	for _, w := range ws {
		r.Logf("%s: final drain from position %d", w.name, w.pos)
		p := w.pos
		if p > L {
			p = L
		}
		e.drain(w.it, p, w.name+" (final drain)")
	}
	if restores >= 2 {
		r.Probe("chain-of-two-or-more-restores")
	}
	r.Obs(uint64(L), uint64(restores), uint64(forks))
	r.Nontrivial = L >= 2 && restores+forks >= 1
}

// ---- window mode: searches far too long to enumerate (n = 9, 10) ----------------------------
//
// The original is advanced k steps, saved, restored through a tape-chosen reader; then the
// original and the clone are advanced in lock step for a window of steps and must agree on
// every step (graph or exhaustion). No reference list is needed, so the DFS levels with
// hundreds of augmentation candidates, which only exist from n = 9 on, are reached.
func (e *eng) window() {
	r := e.r
	t := r.T
	orig := e.newIter()
	limit := 5000 + t.Draw(30000)
	gap := 50 + t.Draw(400)
	r.Logf("config %s (window mode): one pass over the first %d graphs; every ~%d steps: Save, Load, and the clone must reproduce the next steps of the original", e.c, limit, gap)
	pos := 0
	probes := 0
	for pos < limit {
		// advance to the next probe position
		adv := gap/2 + t.Draw(gap)
		done := false
		for i := 0; i < adv; i++ {
			if e.next(orig, "original") == "" {
				done = true
				break
			}
			pos++
		}
		data := e.save(orig, fmt.Sprintf("original after %d Next", pos))
		mode := t.Draw(len(readerNames))
		r.Fault("crash-restart")
		clone := e.load(data, mode, fmt.Sprintf("restart at k=%d", pos))
		probes++
		w := 40 + t.Draw(260)
		for i := 0; i < w; i++ {
			a := e.next(orig, "original")
			b := e.next(clone, "restored iterator")
			if a != b {
				r.Fail("wrong-suffix", "window", "%s: %d steps after a Save/Load at position %d the original yields %q and the restored iterator %q", e.c, i, pos, a, b)
			}
			if a == "" {
				done = true
				break
			}
			pos++
		}
		if done {
			break
		}
	}
	r.Count("window_probes", int64(probes))
	r.Probe("window-mode-large-search")
	r.Obs(uint64(pos), uint64(probes))
	r.Nontrivial = true
}

// ---- configurations ----------------------------------------------------------------------

func configs(tier string) []config {
	var cs []config
	maxN, maxM := 6, 3
	if tier == "thorough" {
		maxN, maxM = 7, 4
	}
	for n := 0; n <= maxN; n++ {
		for m := 1; m <= maxM; m++ {
			for a := 0; a < m; a++ {
				cs = append(cs, config{n, a, m, -1, 0})
				for _, p := range []int{0, 1, 4, 6} {
					for pl := 0; pl < 2; pl++ {
						cs = append(cs, config{n, a, m, p, pl})
					}
				}
			}
		}
	}
	// n = 10, triangle-free: long DFS paths and > 255 augmentations per level (sampled crash points)
	cs = append(cs, config{10, 0, 1, 0, 0})
	if tier == "thorough" {
		cs = append(cs, config{10, 1, 2, 0, 1}, config{10, 0, 1, 6, 0}, config{9, 0, 1, -1, 0})
	}
	am := [][2]int{{0, 1}, {0, 2}, {1, 2}, {2, 3}}
	if tier != "thorough" {
		// n = 7 in quick: the pruned families and three shards of the unpruned search, every crash point
		for _, x := range am {
			for _, p := range []int{0, 3, 4, 6, 7} {
				for pl := 0; pl < 2; pl++ {
					cs = append(cs, config{7, x[0], x[1], p, pl})
				}
			}
			if x[1] > 1 {
				cs = append(cs, config{7, x[0], x[1], -1, 0})
			}
		}
	} else {
		// n = 8: the strongly pruned families, every crash point
		for _, x := range am {
			for _, p := range []int{0, 3, 5, 6, 7} {
				for pl := 0; pl < 2; pl++ {
					cs = append(cs, config{8, x[0], x[1], p, pl})
				}
			}
		}
	}
	return cs
}

var cfgCache = map[string][]config{}

func cfgs(tier string) []config {
	if c, ok := cfgCache[tier]; ok {
		return c
	}
	c := configs(tier)
	cfgCache[tier] = c
	return c
}

const scope = "for every enumerated configuration with at most 3000 output graphs (all but the n = 9/10 ones, whose crash points are sampled): every save position k in 0..len(R)+1 (crash after every Next, before the first, after exhaustion)"

func main() {
	driver.Main(&driver.Spec{
		Property: "C04",
		Engine:   "checkpoint",
		Level:    "fault_enumeration",
		Rule: "enumerated case = one configuration (n, a, m, predicate, placement; all a < m <= 3 [4 thorough], unpruned + 4 predicates x 2 placements, n <= 6 [7 thorough]; plus n = 7 [8 thorough] for the pruned families and some shards): the uninterrupted output R is recorded (twice, must agree), then for EVERY k in 0..len(R)+1 the iterator is saved after k Next calls (before the first, after every one, after exhaustion), abandoned ('crash'), restored from those bytes through a reader that cycles over {plain, one byte at a time, short reads, data together with EOF, zero-length reads}, and the restored iterator must yield exactly R[k:] and then false for ever, while the original, advanced after the Save, must stay on R. " +
			"One random run in 40 uses 'window mode' on searches far too long to enumerate (n = 9, 10, unpruned or pruned): one pass over the first 5000-35000 graphs with a Save/Load probe every 50-450 steps; after each probe the clone must reproduce the next 40-300 steps of the original. The other random runs (n <= 7, m <= 4) interleave Next, Save (also twice), crash+restart from the newest checkpoint, restart from an older checkpoint, fork (clone kept next to the original, both advanced in tape order), drain and drop for up to 4 workers, with chains of restores. Non-trivial = R has >= 2 graphs (and at least one restore or fork in random runs); distinct = distinct fingerprints.",
		Assumptions: []string{
			"only completed Saves are restored: Save panics on a write error by design and the property is silent about torn checkpoints, so no write error is injected",
			"the same predicate functions are supplied to Load as to the original iterator",
			"configurations are bounded (n <= 6/7 enumerated, n <= 7 random)",
		},
		Real:  []string{"graph/search (WithPruning, Next, Value, Save, Load)", "encoding/gob"},
		Stubs: []string{"io.Writer / io.Reader (simulated disk)", "the process owning the iterator (crash = abandon the value)", "pruning predicates"},
		Plan: func(tier string) driver.Plan {
			if tier == "thorough" {
				return driver.Plan{Enum: len(cfgs(tier)), Random: 300000, Exhaustive: true, WallLimit: 40 * time.Minute, ExhaustiveScope: scope}
			}
			return driver.Plan{Enum: len(cfgs(tier)), Random: 20000, Exhaustive: true, WallLimit: 6 * time.Minute, ExhaustiveScope: scope}
		},
		RunOne: func(r *driver.Run) {
			e := &eng{r: r}
			if r.Case >= 0 {
				cs := cfgs(r.Tier)
				e.c = cs[r.Case%len(cs)]
				e.pre, e.pru = e.c.funcs()
				e.everyCrashPoint()
				return
			}
			t := r.T
			if t.Chance(1, 40) {
				// half of the window runs: the unsharded, unpruned search on 10 vertices (the
				// densest DFS levels); the others: n = 9/10 with shards and predicates
				e.c = config{n: 10, a: 0, m: 1, pred: -1}
				if t.Chance(1, 2) {
					n := t.Range(9, 10)
					m := 1 + t.Draw(3)
					e.c = config{n: n, a: t.Draw(m), m: m, pred: -1}
					if t.Chance(1, 2) {
						e.c.pred = []int{0, 6, 1}[t.Draw(3)]
						e.c.placement = t.Draw(2)
					}
				}
				e.pre, e.pru = e.c.funcs()
				e.window()
				return
			}
			n := t.Range(0, 7)
			m := 1 + t.Draw(4)
			e.c = config{n: n, a: t.Draw(m), m: m, pred: -1}
			if t.Chance(2, 3) || n == 7 {
				e.c.pred = []int{0, 3, 4, 6, 7, 1, 2, 5}[t.Draw(8)]
				if n == 7 && (e.c.pred == 1 || e.c.pred == 2) {
					e.c.pred = 0
				}
				e.c.placement = t.Draw(2)
			}
			e.pre, e.pru = e.c.funcs()
			e.chain()
		},
	})
}
