package gutil

// Input generation only: McIlroy's adversary ("A Killer Adversary for Quicksort", 1999)
// played against a comparison-driven transcription of the classic Bentley-McIlroy
// quicksort with Tukey's ninther, which is the algorithm family ints.Sort belongs to.
// The adversary decides the values lazily so that every pivot turns out to be almost the
// smallest element; the frozen values are a concrete slice on which such a quicksort
// degrades to quadratic depth, i.e. on which an introsort must fall back to heapsort.
// Whether ints.Sort really reached its heapsort branch is measured by a probe on the
// generated yield sites (coverage key probes/reached:ints.heapSort), not assumed.
// The oracle for the sort remains sort.Ints.

type adversary struct {
	val    []int
	gas    int
	nsolid int
	cand   int
	item   []int // item[pos] = item id currently at position pos
}

func (a *adversary) less(i, j int) bool {
	x, y := a.item[i], a.item[j]
	if a.val[x] == a.gas && a.val[y] == a.gas {
		if x == a.cand {
			a.val[x] = a.nsolid
		} else {
			a.val[y] = a.nsolid
		}
		a.nsolid++
	}
	if a.val[x] == a.gas {
		a.cand = x
	} else if a.val[y] == a.gas {
		a.cand = y
	}
	return a.val[x] < a.val[y]
}
func (a *adversary) swap(i, j int) { a.item[i], a.item[j] = a.item[j], a.item[i] }

func (a *adversary) med3(m1, m0, m2 int) {
	if a.less(m1, m0) {
		a.swap(m1, m0)
	}
	if a.less(m2, m1) {
		a.swap(m2, m1)
		if a.less(m1, m0) {
			a.swap(m1, m0)
		}
	}
}

func (a *adversary) pivot(lo, hi int) (int, int) {
	m := int(uint(lo+hi) >> 1)
	if hi-lo > 40 {
		s := (hi - lo) / 8
		a.med3(lo, lo+s, lo+2*s)
		a.med3(m, m-s, m+s)
		a.med3(hi-1, hi-1-s, hi-1-2*s)
	}
	a.med3(lo, m, hi-1)
	p := lo
	x, c := lo+1, hi-1
	for ; x < c && a.less(x, p); x++ {
	}
	b := x
	for {
		for ; b < c && !a.less(p, b); b++ {
		}
		for ; b < c && a.less(p, c-1); c-- {
		}
		if b >= c {
			break
		}
		a.swap(b, c-1)
		b++
		c--
	}
	a.swap(p, b-1)
	return b - 1, c
}

func (a *adversary) qsort(lo, hi int) {
	for hi-lo > 12 {
		mlo, mhi := a.pivot(lo, hi)
		if mlo-lo < hi-mhi {
			a.qsort(lo, mlo)
			lo = mhi
		} else {
			a.qsort(mhi, hi)
			hi = mlo
		}
	}
	for i := lo + 1; i < hi; i++ {
		for j := i; j > lo && a.less(j, j-1); j-- {
			a.swap(j, j-1)
		}
	}
}

// QuicksortKiller returns a slice of length n on which a median-of-three/ninther quicksort
// makes maximally unbalanced splits.
func QuicksortKiller(n int) []int {
	a := &adversary{val: make([]int, n), gas: n, item: make([]int, n)}
	for i := range a.val {
		a.val[i] = a.gas
		a.item[i] = i
	}
	a.qsort(0, n)
	return a.val
}
