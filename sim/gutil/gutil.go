// Package gutil holds helpers shared by the engines that look at mamba graphs.
package gutil

import (
	"fmt"

	"github.com/Tom-Johnston/mamba/graph"
	"mambasim/model"
)

// ToModel reads a mamba graph through its observers into a model graph.
func ToModel(g graph.Graph) *model.G {
	return model.FromEdgeFunc(g.N(), func(i, j int) bool { return g.IsEdge(i, j) })
}

// DenseWellFormed checks a *DenseGraph produced by the search: field lengths, symmetric
// IsEdge consistent with the edge bytes (any non-zero byte marks an edge), M and Degrees recomputed, Neighbours ascending.
func DenseWellFormed(g *graph.DenseGraph, n int) string {
	if g == nil {
		return "nil graph"
	}
	if g.N() != n || g.NumberOfVertices != n {
		return fmt.Sprintf("N() = %d (field %d), want %d", g.N(), g.NumberOfVertices, n)
	}
	if len(g.Edges) != n*(n-1)/2 {
		return fmt.Sprintf("Edges has length %d, want %d", len(g.Edges), n*(n-1)/2)
	}
	if len(g.DegreeSequence) != n {
		return fmt.Sprintf("DegreeSequence has length %d, want %d", len(g.DegreeSequence), n)
	}
	deg := make([]int, n)
	m := 0
	for j := 0; j < n; j++ {
		for i := 0; i < j; i++ {
			a, b := g.IsEdge(i, j), g.IsEdge(j, i)
			if a != b {
				return fmt.Sprintf("IsEdge(%d,%d) != IsEdge(%d,%d)", i, j, j, i)
			}
			if a != (g.Edges[j*(j-1)/2+i] != 0) {
				return fmt.Sprintf("IsEdge(%d,%d) disagrees with Edges", i, j)
			}
			if a {
				deg[i]++
				deg[j]++
				m++
			}
		}
		if g.IsEdge(j, j) {
			return fmt.Sprintf("loop at %d", j)
		}
	}
	if g.M() != m {
		return fmt.Sprintf("M() = %d but the graph has %d edges", g.M(), m)
	}
	d := g.Degrees()
	for v := 0; v < n; v++ {
		if d[v] != deg[v] {
			return fmt.Sprintf("Degrees() = %v but the adjacency gives %v", d, deg)
		}
		nb := g.Neighbours(v)
		if len(nb) != deg[v] {
			return fmt.Sprintf("Neighbours(%d) = %v, degree %d", v, nb, deg[v])
		}
		for i, u := range nb {
			if !g.IsEdge(u, v) || (i > 0 && nb[i-1] >= u) {
				return fmt.Sprintf("Neighbours(%d) = %v inconsistent", v, nb)
			}
		}
	}
	return ""
}

// G6 is an independent graph6 writer for n <= 62 (trace output / result serialisation).
func G6(g *model.G) string {
	b := []byte{byte(g.N + 63)}
	var cur byte
	k := 0
	for j := 1; j < g.N; j++ {
		for i := 0; i < j; i++ {
			cur <<= 1
			if g.Has(i, j) {
				cur |= 1
			}
			k++
			if k == 6 {
				b = append(b, cur+63)
				cur, k = 0, 0
			}
		}
	}
	if k > 0 {
		b = append(b, cur<<uint(6-k)+63)
	}
	return string(b)
}
