// Package driver is the part of the simulator every engine shares: the run loop over
// seeds, worker fan-out (one OS process per worker), logical step budgets through the
// generated yield points, failure classification, known-finding matching, tape
// minimisation, replay files and the evidence file.
package driver

import (
	"encoding/json"
	"flag"
	"fmt"
	"os"
	"os/exec"
	"path/filepath"
	"regexp"
	"runtime"
	"sort"
	"strings"
	"time"

	"github.com/Tom-Johnston/mamba/verifhook"
	"mambasim/tape"
)

// Failure is one violated oracle.
type Failure struct {
	Class string `json:"class"` // "<property>/<oracle>"
	Key   string `json:"key"`   // identifies the failing input / call site / history for known-finding matching
	Msg   string `json:"message"`
}

type failPanic struct{ f *Failure }

// abandonPanic ends a run without a verdict (see Spec.BudgetInconclusive).
type abandonPanic struct{}

// BudgetPanic is the sentinel the yield hook throws when a call exceeds its logical
// step budget. It unwinds through the library (which contains no recover).
type BudgetPanic struct{}

// Run is the context of one simulated run.
type Run struct {
	T          *tape.Tape
	Case       int // >= 0: enumerated case number; -1: tape-random scenario
	Tier       string
	Tracing    bool
	Trace      []string
	Nontrivial bool
	obs        uint64
	C          map[string]int64
	Prop       string

	budgetInconclusive bool
}

func (r *Run) Logf(format string, a ...interface{}) {
	if r.Tracing {
		if len(r.Trace) < 4000 {
			r.Trace = append(r.Trace, fmt.Sprintf(format, a...))
		}
	}
}

// Obs folds observed values (operation codes, results coming back from the library)
// into the run's fingerprint. Two executions of one tape must give the same fingerprint.
func (r *Run) Obs(vs ...uint64) {
	for _, v := range vs {
		r.obs = tape.Mix(r.obs, v)
	}
}
func (r *Run) ObsInts(vs []int) {
	r.obs = tape.Mix(r.obs, uint64(len(vs)))
	for _, v := range vs {
		r.obs = tape.Mix(r.obs, uint64(v))
	}
}
func (r *Run) ObsStr(s string) { r.obs = tape.Mix(r.obs, tape.HashString(s)) }

func (r *Run) Count(name string, n int64) { r.C[name] += n }
func (r *Run) Fault(kind string)          { r.C["fault."+kind]++ }
func (r *Run) Probe(name string)          { r.C["probe."+name]++ }

// Fail ends the run with a violation.
func (r *Run) Fail(oracle, key, format string, a ...interface{}) {
	panic(failPanic{&Failure{Class: r.Prop + "/" + oracle, Key: key, Msg: fmt.Sprintf(format, a...)}})
}

// Scoped runs f; a violation raised inside is re-raised under the given oracle and key
// (the original class and message are kept in the message). Used where one listed
// defect makes a whole family of requests fail in many different ways.
func (r *Run) Scoped(oracle, key string, f func()) {
	defer func() {
		if p := recover(); p != nil {
			if fp, ok := p.(failPanic); ok {
				panic(failPanic{&Failure{Class: r.Prop + "/" + oracle, Key: key, Msg: "[" + fp.f.Class + " | " + fp.f.Key + "] " + fp.f.Msg}})
			}
			panic(p)
		}
	}()
	f()
}

// ---- logical step budget -------------------------------------------------------

var (
	stepCount  int64
	stepLimit  int64 = 1 << 62
	TotalSteps int64
)

var siteHits [8192]int64

func budgetHook(site int) {
	stepCount++
	if site >= 0 && site < len(siteHits) {
		siteHits[site]++
	}
	if stepCount > stepLimit {
		stepLimit = 1 << 62
		panic(BudgetPanic{})
	}
}

// InstallBudgetHook makes the generated yields count logical steps.
func InstallBudgetHook() { verifhook.Hook = budgetHook }

var numRe = regexp.MustCompile(`[0-9]+`)

// PanicSite returns the innermost frame of the tree under test on the current
// (panicking) stack, as "pkg.Func", plus the panic text with numbers blanked.
func panicKey(p interface{}) (string, string) {
	pcs := make([]uintptr, 64)
	n := runtime.Callers(3, pcs)
	frames := runtime.CallersFrames(pcs[:n])
	site := "?"
	for {
		fr, more := frames.Next()
		if strings.Contains(fr.Function, "Tom-Johnston/mamba/") && !strings.Contains(fr.Function, "/verifhook.") {
			fn := fr.Function
			if i := strings.LastIndex(fn, "/"); i >= 0 {
				fn = fn[i+1:]
			}
			site = fmt.Sprintf("%s", fn)
			break
		}
		if !more {
			break
		}
	}
	msg := fmt.Sprint(p)
	if e, ok := p.(error); ok {
		msg = e.Error()
	}
	return site, numRe.ReplaceAllString(msg, "N")
}

// Call runs one library call under a logical step budget and recover. It returns the
// description of a panic ("" if none: site + message with numbers blanked). Exceeding the budget is a
// violation of class <property>/step-budget.
func (r *Run) Call(what string, budget int64, f func()) (panicDesc string) {
	stepCount = 0
	stepLimit = budget
	defer func() {
		TotalSteps += stepCount
		r.C["steps"] += stepCount
		stepLimit = 1 << 62
		if p := recover(); p != nil {
			switch v := p.(type) {
			case failPanic:
				panic(v)
			case abandonPanic:
				panic(v)
			case BudgetPanic:
				if r.budgetInconclusive {
					// the property says nothing about cost: a call that outruns the budget is
					// abandoned, the run ends without a verdict and is counted
					r.C["abandoned_over_step_budget"]++
					r.Logf("%s: logical step budget %d exceeded: run abandoned without a verdict", what, budget)
					panic(abandonPanic{})
				}
				r.Fail("step-budget", what, "%s: logical step budget %d exceeded (does not terminate / runs away)", what, budget)
			case tape.Overrun:
				panic(v)
			default:
				site, msg := panicKey(p)
				panicDesc = site + ": " + msg
			}
		}
	}()
	f()
	return ""
}

// Must is Call where any panic is a violation of class <property>/panic.
func (r *Run) Must(what string, budget int64, f func()) {
	if pd := r.Call(what, budget, f); pd != "" {
		r.Fail("panic", what+" @ "+pd, "%s panicked: %s", what, pd)
	}
}

// ---- engine specification ------------------------------------------------------

type Plan struct {
	ColdEvery       int    // overrides Spec.ColdEvery for this tier when > 0
	ExhaustiveScope string // which finite space the enumerated part covers completely (evidence key exhaustive_scope)
	Enum            int    // enumerated cases 0..Enum-1 (each run once, first tape draw forced)
	Random          int    // tape-random runs
	Exhaustive      bool   // the enumerated part covers a finite space completely (stated in Rule)
	WallLimit       time.Duration
}

type Spec struct {
	Property    string
	Engine      string
	Level       string // exploration | fault_enumeration
	Rule        string
	Assumptions []string
	Real        []string // components running real code
	Stubs       []string // components that are stubs of the simulator
	Plan        func(tier string) Plan
	Setup       func(tier string) // per process, before the first run
	RunOne      func(r *Run)
	// Extra is called by the coordinator to add engine-specific coverage keys.
	Extra func(counters map[string]int64, cov map[string]interface{})
	// ProbeFuncs: functions of the tree under test (as "pkg.Func" / "pkg.Recv.Method")
	// whose generated yield sites are counted and reported as probes "reached:<func>".
	ProbeFuncs []string
	// OwnHook: the engine installs its own yield hook (the scheduler); the driver's
	// step-budget hook is not installed.
	OwnHook bool
	// Isolated: re-executions of a failing tape (minimisation, final trace, replay check)
	// run in a fresh process each. Needed where an oracle is process-global: the race
	// detector reports one racing stack pair only once per process.
	Isolated bool
	// ColdEvery > 0: every ColdEvery-th run is executed in a fresh process of its own, so that
	// process-wide lazily initialised state of the tree under test (memo tables, sync.Once
	// pools) is cold when the run starts.
	ColdEvery int
	// Finish is called by each worker after its last run; it may add counters.
	Finish func(counters map[string]int64)
	// ProcsSwarm, when set, gives worker i the environment GOMAXPROCS=ProcsSwarm[i%len]: a tuning
	// knob of the runtime that the tree under test can read (package-level tables sized "one per
	// P"). Results must not depend on it; the value a failure was found under is recorded in the
	// replay file and the replay re-executes itself under the same value.
	ProcsSwarm []int
	// BudgetInconclusive: exceeding the logical step budget of a call is not a violation of this
	// property (it makes no statement about cost, and the algorithm is exponential in the worst
	// case): the run is abandoned and counted (counter abandoned_over_step_budget) instead.
	BudgetInconclusive bool
}

// childEnv is the environment for helper processes (isolated executions, cold runs, sequence
// replays): that of this process, which already carries the worker's GOMAXPROCS.
func childEnv() []string { return os.Environ() }

type replayFile struct {
	Property  string   `json:"property"`
	Engine    string   `json:"engine"`
	Tier      string   `json:"tier"`
	Seed      uint64   `json:"seed"`
	Run       int      `json:"run"`
	Class     string   `json:"class"`
	Key       string   `json:"key"`
	Message   string   `json:"message"`
	Tape      []uint64 `json:"tape"`
	OrigLen   int      `json:"original_tape_len"`
	Shrinks   int      `json:"shrink_attempts"`
	TraceHash string   `json:"trace_hash"`
	Trace     []string `json:"trace"`
	// Sequence replay: the failure depends on state that earlier runs left in the process
	// (hidden package-level state in the tree under test). The replay is then the run
	// sequence First, First+Step, ..., Last of this seed, executed in one fresh process.
	SeqFirst int  `json:"sequence_first,omitempty"`
	SeqStep  int  `json:"sequence_step,omitempty"`
	SeqLast  int  `json:"sequence_last,omitempty"`
	Sequence bool `json:"sequence,omitempty"`
	// GOMAXPROCS of the process that found the failure (engines with a ProcsSwarm only)
	Procs int `json:"gomaxprocs,omitempty"`
}

type known struct {
	Property string `json:"property"`
	Class    string `json:"class"`
	Key      string `json:"key"`
	Status   string `json:"status"` // open | fixed
	Commit   string `json:"commit,omitempty"`
	What     string `json:"what"`
}

type workerOut struct {
	Counters   map[string]int64  `json:"counters"`
	Runs       int               `json:"runs"`
	Hashes     []uint64          `json:"hashes"` // fingerprints of non-trivial runs
	Violations []violation       `json:"violations"`
	Known      map[string]int    `json:"known"`
	KnownMsg   map[string]string `json:"known_msg"`
	Samples    []sample          `json:"samples"`
	Truncated  bool              `json:"truncated"`
	EventLog   []string          `json:"event_log,omitempty"`
	Steps      int64             `json:"steps"`
}

type violation struct {
	Class  string `json:"class"`
	Key    string `json:"key"`
	Msg    string `json:"message"`
	Replay string `json:"replay"`
	Run    int    `json:"run"`
}

type sample struct {
	Run   int      `json:"run"`
	Case  int      `json:"case"`
	Tape  []uint64 `json:"tape_head"`
	Trace []string `json:"trace"`
}

type result struct {
	fail  *Failure
	rec   []uint64
	obs   uint64
	trace []string
	nontr bool
	c     map[string]int64
	caseN int
}

func execute(s *Spec, t *tape.Tape, tier string, tracing bool) (res result) {
	r := &Run{T: t, Tier: tier, Tracing: tracing, C: map[string]int64{}, Prop: s.Property, budgetInconclusive: s.BudgetInconclusive}
	defer func() {
		if p := recover(); p != nil {
			switch v := p.(type) {
			case abandonPanic:
				// no verdict
			case failPanic:
				res.fail = v.f
			case tape.Overrun:
				res.fail = &Failure{Class: s.Property + "/harness-tape-overrun", Key: "overrun", Msg: "tape overrun (engine bug)"}
			default:
				// a panic outside Call(): harness bug or unguarded library call. Reported
				// loudly as machinery trouble, never as a violation.
				buf := make([]byte, 1<<14)
				buf = buf[:runtime.Stack(buf, false)]
				fmt.Fprintf(os.Stderr, "HARNESS-PANIC %v\n%s\n", p, buf)
				os.Exit(2)
			}
		}
		res.rec = t.Rec
		res.obs = r.obs
		res.trace = r.Trace
		res.nontr = r.Nontrivial
		res.c = r.C
		res.caseN = r.Case
	}()
	r.Case = t.Draw(1<<31) - 1
	s.RunOne(r)
	return
}

type isoResult struct {
	C     map[string]int64 `json:"c,omitempty"`
	Case  int              `json:"case"`
	Fail  *Failure         `json:"fail"`
	Rec   []uint64         `json:"rec"`
	Obs   uint64           `json:"obs"`
	Trace []string         `json:"trace"`
	Nontr bool             `json:"nontr"`
}

var runsOverrideFlag *int

// executeSequence runs the run sequence first, first+step, ..., last of one seed in a fresh
// process and returns the result of the last run.
func executeSequence(s *Spec, tier string, seed uint64, first, step, last, runsOverride int) result {
	dir, err := os.MkdirTemp("", "seq-")
	if err != nil {
		fmt.Fprintln(os.Stderr, "sequence execution:", err)
		os.Exit(2)
	}
	defer os.RemoveAll(dir)
	out := filepath.Join(dir, "out.json")
	args := []string{"-execseq", fmt.Sprintf("%d,%d,%d", first, step, last), "-execout", out, "-tier", tier, "-seed", fmt.Sprint(seed)}
	if runsOverride >= 0 {
		args = append(args, "-runs", fmt.Sprint(runsOverride))
	}
	c := exec.Command(os.Args[0], args...)
	c.Stderr = os.Stderr
	c.Env = os.Environ()
	if err := c.Run(); err != nil {
		fmt.Fprintln(os.Stderr, "sequence execution failed:", err)
		os.Exit(2)
	}
	ob, err := os.ReadFile(out)
	var ir isoResult
	if err != nil || json.Unmarshal(ob, &ir) != nil {
		fmt.Fprintln(os.Stderr, "sequence execution: no result")
		os.Exit(2)
	}
	return result{fail: ir.Fail, rec: ir.Rec, obs: ir.Obs, trace: ir.Trace, nontr: ir.Nontr}
}

// IsColdRun reports whether run is one of the runs executed in a fresh process.
func IsColdRun(s *Spec, run int) bool {
	// a hash of the run number, so that cold runs spread evenly over the workers
	return s.ColdEvery > 0 && tape.Mix(uint64(run), 0xc01d)%uint64(s.ColdEvery) == 0
}

// executeColdRun executes run number run of this seed in a fresh process.
func executeColdRun(s *Spec, tier string, seed uint64, run int) result {
	dir, err := os.MkdirTemp("", "cold-")
	if err != nil {
		fmt.Fprintln(os.Stderr, "cold run:", err)
		os.Exit(2)
	}
	defer os.RemoveAll(dir)
	out := filepath.Join(dir, "out.json")
	args := []string{"-execrun", fmt.Sprint(run), "-execout", out, "-tier", tier, "-seed", fmt.Sprint(seed)}
	if runsOverrideFlag != nil && *runsOverrideFlag >= 0 {
		args = append(args, "-runs", fmt.Sprint(*runsOverrideFlag))
	}
	c := exec.Command(os.Args[0], args...)
	c.Stderr = os.Stderr
	c.Env = os.Environ()
	if err := c.Run(); err != nil {
		fmt.Fprintln(os.Stderr, "cold run failed:", err)
		os.Exit(2)
	}
	ob, err := os.ReadFile(out)
	var ir isoResult
	if err != nil || json.Unmarshal(ob, &ir) != nil {
		fmt.Fprintln(os.Stderr, "cold run: no result")
		os.Exit(2)
	}
	return result{fail: ir.Fail, rec: ir.Rec, obs: ir.Obs, nontr: ir.Nontr, c: ir.C, caseN: ir.Case}
}

// executeIsolated runs one tape in a fresh process of this binary.
func executeIsolated(s *Spec, tp []uint64, tier string) result {
	dir, err := os.MkdirTemp("", "iso-")
	if err != nil {
		fmt.Fprintln(os.Stderr, "isolated execution:", err)
		os.Exit(2)
	}
	defer os.RemoveAll(dir)
	in, out := filepath.Join(dir, "tape.json"), filepath.Join(dir, "out.json")
	if tp == nil {
		tp = []uint64{}
	}
	b, _ := json.Marshal(tp)
	os.WriteFile(in, b, 0o644)
	c := exec.Command(os.Args[0], "-exectape", in, "-execout", out, "-tier", tier)
	c.Stderr = os.Stderr
	c.Env = os.Environ()
	if err := c.Run(); err != nil {
		fmt.Fprintln(os.Stderr, "isolated execution failed:", err)
		os.Exit(2)
	}
	ob, err := os.ReadFile(out)
	var ir isoResult
	if err != nil || json.Unmarshal(ob, &ir) != nil {
		fmt.Fprintln(os.Stderr, "isolated execution: no result")
		os.Exit(2)
	}
	return result{fail: ir.Fail, rec: ir.Rec, obs: ir.Obs, trace: ir.Trace, nontr: ir.Nontr}
}

func loadKnown(path, prop string) []known {
	var all []known
	b, err := os.ReadFile(path)
	if err != nil {
		return nil
	}
	var doc struct {
		Findings []known `json:"findings"`
	}
	if err := json.Unmarshal(b, &doc); err != nil {
		fmt.Fprintf(os.Stderr, "cannot parse %s: %v\n", path, err)
		os.Exit(2)
	}
	for _, k := range doc.Findings {
		if k.Property == prop && k.Status == "open" {
			all = append(all, k)
		}
	}
	return all
}

func isKnown(ks []known, f *Failure) *known {
	for i := range ks {
		if ks[i].Class == f.Class && ks[i].Key == f.Key {
			return &ks[i]
		}
	}
	return nil
}

func traceHash(tr []string, obs uint64) string {
	h := obs
	for _, l := range tr {
		h = tape.Mix(h, tape.HashString(l))
	}
	return fmt.Sprintf("%016x", h)
}

// shrink minimises a failing tape while the same class persists and the failure is
// not a listed known finding.
func shrink(run func(tp []uint64, tracing bool) result, orig []uint64, class string, ks []known, maxAttempts int, deadline time.Time) ([]uint64, int) {
	attempts := 0
	try := func(c []uint64) ([]uint64, bool) {
		if attempts >= maxAttempts || time.Now().After(deadline) {
			return nil, false
		}
		attempts++
		res := run(c, false)
		if res.fail != nil && res.fail.Class == class && isKnown(ks, res.fail) == nil {
			rec := res.rec
			// drop trailing zeros: a replay yields zeros past the end anyway
			for len(rec) > 0 && rec[len(rec)-1] == 0 {
				rec = rec[:len(rec)-1]
			}
			if len(rec) <= len(c) {
				return append([]uint64(nil), rec...), true
			}
			return append([]uint64(nil), c...), true
		}
		return nil, false
	}
	cur := append([]uint64(nil), orig...)
	if c, ok := try(cur); ok {
		cur = c
	} else {
		return orig, attempts
	}
	less := func(a, b []uint64) bool {
		if len(a) != len(b) {
			return len(a) < len(b)
		}
		for i := range a {
			if a[i] != b[i] {
				return a[i] < b[i]
			}
		}
		return false
	}
	for progress := true; progress; {
		progress = false
		// 1. cut the tail
		for cut := len(cur) / 2; cut >= 1; cut /= 2 {
			for len(cur) > cut {
				if c, ok := try(cur[:len(cur)-cut]); ok && less(c, cur) {
					cur = c
					progress = true
				} else {
					break
				}
			}
		}
		// 2. delete blocks
		for _, bs := range []int{16, 8, 4, 2, 1} {
			for i := len(cur) - bs; i >= 1; i-- { // never delete draw 0 (the case selector)
				if i+bs > len(cur) {
					continue
				}
				cand := append(append([]uint64(nil), cur[:i]...), cur[i+bs:]...)
				if c, ok := try(cand); ok && less(c, cur) {
					cur = c
					progress = true
				}
			}
		}
		// 3. zero, 4. halve, 5. decrement
		for i := 0; i < len(cur); i++ {
			if cur[i] == 0 {
				continue
			}
			for _, nv := range []uint64{0, cur[i] / 2, cur[i] - 1} {
				if nv >= cur[i] {
					continue
				}
				cand := append([]uint64(nil), cur...)
				cand[i] = nv
				if c, ok := try(cand); ok && less(c, cur) {
					cur = c
					progress = true
					break
				}
			}
			if i >= len(cur) {
				break
			}
		}
		if attempts >= maxAttempts || time.Now().After(deadline) {
			break
		}
	}
	return cur, attempts
}

func propHash(p string) uint64 { return tape.HashString(p) }

// Main is the entry point of every engine binary.
func Main(s *Spec) {
	tier := flag.String("tier", "quick", "quick | thorough")
	seed := flag.Uint64("seed", 1, "master seed (VERIF_SEED)")
	workers := flag.Int("workers", runtime.NumCPU(), "worker processes")
	worker := flag.String("worker", "", "internal: i/W")
	out := flag.String("out", "", "internal: worker output file")
	evidence := flag.String("evidence", "", "evidence file to write")
	replays := flag.String("replays", "/verif/replays", "directory for replay files")
	knownPath := flag.String("known", "/verif/known_findings.json", "known findings file")
	replay := flag.String("replay", "", "replay a replay file")
	runsOverride := flag.Int("runs", -1, "override the number of random runs")
	runsOverrideFlag = runsOverride
	execSeq := flag.String("execseq", "", "internal: first,step,last - execute this run sequence, report the last run")
	execRun := flag.Int("execrun", -1, "internal: execute this run number (generated from the seed) and report it")
	eventlog := flag.Bool("eventlog", false, "internal: record per-run event log (determinism self-test)")
	eventOut := flag.String("eventout", "", "write merged event log here")
	oneRun := flag.Int("run", -1, "execute only this run number, with trace")
	execTape := flag.String("exectape", "", "internal: execute the tape in this file (isolated re-execution)")
	execOut := flag.String("execout", "", "internal: result file of -exectape")
	flag.Parse()
	if v := os.Getenv("VERIF_SEED"); v != "" && !isFlagSet("seed") {
		var x uint64
		if _, err := fmt.Sscan(v, &x); err == nil {
			*seed = x
		}
	}
	if !s.OwnHook {
		InstallBudgetHook()
	}
	ks := loadKnown(*knownPath, s.Property)

	if *execTape != "" {
		b, err := os.ReadFile(*execTape)
		var tp []uint64
		if err != nil || json.Unmarshal(b, &tp) != nil {
			fmt.Fprintln(os.Stderr, "exectape: cannot read tape")
			os.Exit(2)
		}
		if s.Setup != nil {
			s.Setup(*tier)
		}
		res := execute(s, tape.NewReplay(tp), *tier, true)
		ob, _ := json.Marshal(isoResult{Fail: res.fail, Rec: res.rec, Obs: res.obs, Trace: res.trace, Nontr: res.nontr})
		if os.WriteFile(*execOut, ob, 0o644) != nil {
			os.Exit(2)
		}
		os.Exit(0)
	}
	if *replay != "" {
		os.Exit(doReplay(s, *replay, ks))
	}
	plan := s.Plan(*tier)
	if *runsOverride >= 0 {
		plan.Random = *runsOverride
	}
	if plan.ColdEvery > 0 {
		s.ColdEvery = plan.ColdEvery
	}
	if *execRun >= 0 {
		if s.Setup != nil {
			s.Setup(*tier)
		}
		res := execute(s, genTape(s, *seed, *execRun, plan), *tier, false)
		ob, _ := json.Marshal(isoResult{Fail: res.fail, Rec: res.rec, Obs: res.obs, Nontr: res.nontr, C: res.c, Case: res.caseN})
		if os.WriteFile(*execOut, ob, 0o644) != nil {
			os.Exit(2)
		}
		os.Exit(0)
	}
	if *execSeq != "" {
		var first, step, last int
		fmt.Sscanf(*execSeq, "%d,%d,%d", &first, &step, &last)
		if s.Setup != nil {
			s.Setup(*tier)
		}
		var res result
		for run := first; run <= last; run += step {
			res = execute(s, genTape(s, *seed, run, plan), *tier, run == last)
		}
		ob, _ := json.Marshal(isoResult{Fail: res.fail, Rec: res.rec, Obs: res.obs, Trace: res.trace, Nontr: res.nontr})
		if os.WriteFile(*execOut, ob, 0o644) != nil {
			os.Exit(2)
		}
		os.Exit(0)
	}
	if plan.WallLimit == 0 {
		plan.WallLimit = 20 * time.Minute
	}
	if *oneRun >= 0 {
		if s.Setup != nil {
			s.Setup(*tier)
		}
		t := genTape(s, *seed, *oneRun, plan)
		res := execute(s, t, *tier, true)
		for _, l := range res.trace {
			fmt.Println(l)
		}
		fmt.Printf("tape=%v\nfail=%+v\n", res.rec, res.fail)
		os.Exit(0)
	}
	if *worker != "" {
		var wi, wn int
		fmt.Sscanf(*worker, "%d/%d", &wi, &wn)
		runWorker(s, *tier, *seed, wi, wn, plan, ks, *out, *replays, *eventlog)
		return
	}
	os.Exit(coordinate(s, *tier, *seed, *workers, plan, ks, *evidence, *knownPath, *replays, *runsOverride, *eventlog, *eventOut))
}

func isFlagSet(name string) bool {
	set := false
	flag.Visit(func(f *flag.Flag) {
		if f.Name == name {
			set = true
		}
	})
	return set
}

func genTape(s *Spec, seed uint64, run int, plan Plan) *tape.Tape {
	rs := tape.Mix(seed, propHash(s.Property), uint64(run))
	if run < plan.Enum {
		return tape.NewGen(rs, []uint64{uint64(run) + 1})
	}
	if s.ColdEvery > 0 {
		// the engine's first own draw says whether this run starts in a fresh process
		cold := uint64(0)
		if IsColdRun(s, run) {
			cold = 1
		}
		return tape.NewGen(rs, []uint64{0, cold})
	}
	return tape.NewGen(rs, []uint64{0})
}

func runWorker(s *Spec, tier string, seed uint64, wi, wn int, plan Plan, ks []known, out, replays string, eventlog bool) {
	start := time.Now()
	if v := os.Getenv("VERIF_COLD_EVERY"); v != "" {
		fmt.Sscan(v, &s.ColdEvery) // experiments only
	}
	if s.Setup != nil {
		s.Setup(tier)
	}
	wo := workerOut{Counters: map[string]int64{}, Known: map[string]int{}, KnownMsg: map[string]string{}}
	total := plan.Enum + plan.Random
	for run := wi; run < total; run += wn {
		if time.Since(start) > plan.WallLimit {
			wo.Truncated = true
			break
		}
		var res result
		if IsColdRun(s, run) {
			res = executeColdRun(s, tier, seed, run)
			if res.c == nil {
				res.c = map[string]int64{}
			}
			res.c["probe.run-executed-in-a-fresh-process(cold-start)"]++
		} else {
			res = execute(s, genTape(s, seed, run, plan), tier, false)
		}
		wo.Runs++
		for k, v := range res.c {
			wo.Counters[k] += v
		}
		if res.nontr {
			wo.Hashes = append(wo.Hashes, res.obs)
		}
		if eventlog {
			verdict := "ok"
			if res.fail != nil {
				verdict = res.fail.Class + "|" + res.fail.Key
			}
			wo.EventLog = append(wo.EventLog, fmt.Sprintf("%d %016x %016x %s", run, tape.Mix(res.rec...), res.obs, verdict))
		}
		if len(wo.Samples) < 2 && (run < 2*wn || (run >= plan.Enum && run < plan.Enum+2*wn)) && wi < 2 {
			// re-execute with tracing to write the case out (pure function of the tape)
			res2 := execute(s, tape.NewReplay(res.rec), tier, true)
			tr := res2.trace
			if len(tr) > 40 {
				tr = append(append([]string(nil), tr[:30]...), fmt.Sprintf("... (%d more events)", len(tr)-30))
			}
			th := res.rec
			if len(th) > 48 {
				th = th[:48]
			}
			wo.Samples = append(wo.Samples, sample{Run: run, Case: res.caseN, Tape: th, Trace: tr})
		}
		if res.fail == nil {
			continue
		}
		if k := isKnown(ks, res.fail); k != nil {
			wo.Known[k.Class+" "+k.Key]++
			wo.KnownMsg[k.Class+" "+k.Key] = res.fail.Msg
			continue
		}
		// a violation: minimise, write the replay file, stop this worker
		rerun := func(tp []uint64, tracing bool) result { return execute(s, tape.NewReplay(tp), tier, tracing) }
		maxAtt := 3000
		if s.Isolated {
			rerun = func(tp []uint64, tracing bool) result { return executeIsolated(s, tp, tier) }
			maxAtt = 120
		}
		if strings.HasSuffix(res.fail.Class, "/stuck") {
			// the process is poisoned (tasks blocked for ever): no minimisation, report and stop
			rf := replayFile{Property: s.Property, Engine: s.Engine, Tier: tier, Seed: seed, Run: run, Class: res.fail.Class, Key: res.fail.Key,
				Message: res.fail.Msg, Tape: res.rec, OrigLen: len(res.rec), TraceHash: traceHash(nil, res.obs), Procs: procsOf(s)}
			os.MkdirAll(replays, 0o755)
			path := filepath.Join(replays, fmt.Sprintf("%s-%d-%d.json", s.Property, seed, run))
			b, _ := json.MarshalIndent(rf, "", " ")
			os.WriteFile(path, b, 0o644)
			wo.Violations = append(wo.Violations, violation{Class: res.fail.Class, Key: res.fail.Key, Msg: res.fail.Msg, Replay: path, Run: run})
			break
		}
		shr, attempts := shrink(rerun, res.rec, res.fail.Class, ks, maxAtt, time.Now().Add(60*time.Second))
		fin := rerun(shr, true)
		if fin.fail == nil || fin.fail.Class != res.fail.Class {
			// should not happen (shrink only accepts same-class failures); fall back
			shr = res.rec
			fin = rerun(shr, true)
		}
		seqFirst, isSeq := 0, false
		if fin.fail == nil {
			// The tape alone does not fail: the failure may depend on state earlier runs of this
			// worker left behind in the process. Re-execute suffixes of this worker's run sequence
			// in a fresh process; the shortest suffix that reproduces the class is the replay.
			for k := 2; ; k *= 2 {
				first := run - (k-1)*wn
				if first < wi {
					first = wi
				}
				sr := executeSequence(s, tier, seed, first, wn, run, *runsOverrideFlag)
				if sr.fail != nil && sr.fail.Class == res.fail.Class {
					fin, shr, seqFirst, isSeq = sr, res.rec, first, true
					break
				}
				if first == wi {
					break
				}
			}
		}
		if fin.fail == nil {
			fmt.Fprintf(os.Stderr, "NONDETERMINISM: run %d failed (%s) but neither its recorded tape nor this worker's run sequence fails again in a fresh process\n", run, res.fail.Class)
			os.Exit(2)
		}
		if shr == nil {
			shr = []uint64{}
		}
		if isSeq {
			fin.fail.Msg = fmt.Sprintf("[depends on state left in the process by earlier calls: reproduced by the run sequence %d, %d, ..., %d in a fresh process, not by run %d alone] ", seqFirst, seqFirst+wn, run, run) + fin.fail.Msg
		}
		rf := replayFile{SeqFirst: seqFirst, SeqStep: wn, SeqLast: run, Sequence: isSeq, Property: s.Property, Engine: s.Engine, Tier: tier, Seed: seed, Run: run, Class: fin.fail.Class, Key: fin.fail.Key,
			Message: fin.fail.Msg, Tape: shr, OrigLen: len(res.rec), Shrinks: attempts, TraceHash: traceHash(fin.trace, fin.obs), Trace: fin.trace, Procs: procsOf(s)}
		os.MkdirAll(replays, 0o755)
		path := filepath.Join(replays, fmt.Sprintf("%s-%d-%d.json", s.Property, seed, run))
		b, _ := json.MarshalIndent(rf, "", " ")
		os.WriteFile(path, b, 0o644)
		wo.Violations = append(wo.Violations, violation{Class: fin.fail.Class, Key: fin.fail.Key, Msg: fin.fail.Msg, Replay: path, Run: run})
		break
	}
	if s.Finish != nil {
		s.Finish(wo.Counters)
	}
	if len(s.ProbeFuncs) > 0 {
		type siteInfo struct {
			ID   int    `json:"id"`
			Func string `json:"func"`
		}
		var sites []siteInfo
		if b, err := os.ReadFile(os.Getenv("VERIF_SITES")); err == nil {
			json.Unmarshal(b, &sites)
		}
		for _, fn := range s.ProbeFuncs {
			var hits int64
			found := false
			for _, si := range sites {
				if si.Func == fn && si.ID < len(siteHits) {
					hits += siteHits[si.ID]
					found = true
				}
			}
			if found {
				wo.Counters["probe.reached:"+fn] += hits
			}
		}
	}
	wo.Steps = TotalSteps
	b, _ := json.Marshal(wo)
	if err := os.WriteFile(out, b, 0o644); err != nil {
		fmt.Fprintln(os.Stderr, "worker:", err)
		os.Exit(2)
	}
}

func coordinate(s *Spec, tier string, seed uint64, workers int, plan Plan, ks []known, evidence, knownPath, replays string, runsOverride int, eventlog bool, eventOut string) int {
	start := time.Now()
	total := plan.Enum + plan.Random
	if workers > total {
		workers = total
	}
	if workers < 1 {
		workers = 1
	}
	tmp, err := os.MkdirTemp("", "mambasim-"+s.Property+"-")
	if err != nil {
		fmt.Fprintln(os.Stderr, err)
		return 2
	}
	defer os.RemoveAll(tmp)
	type proc struct {
		cmd *exec.Cmd
		out string
	}
	procs := make([]proc, workers)
	for i := 0; i < workers; i++ {
		o := filepath.Join(tmp, fmt.Sprintf("w%d.json", i))
		args := []string{"-worker", fmt.Sprintf("%d/%d", i, workers), "-tier", tier, "-seed", fmt.Sprint(seed), "-out", o, "-replays", replays, "-known", knownPath}
		if runsOverride >= 0 {
			args = append(args, "-runs", fmt.Sprint(runsOverride))
		}
		if eventlog {
			args = append(args, "-eventlog")
		}
		c := exec.Command(os.Args[0], args...)
		c.Stdout = os.Stdout
		c.Stderr = os.Stderr
		c.Env = os.Environ()
		if len(s.ProcsSwarm) > 0 {
			c.Env = append(c.Env, fmt.Sprintf("GOMAXPROCS=%d", s.ProcsSwarm[i%len(s.ProcsSwarm)]))
		}
		if err := c.Start(); err != nil {
			fmt.Fprintln(os.Stderr, "cannot start worker:", err)
			return 2
		}
		procs[i] = proc{c, o}
	}
	// watchdog: machinery trouble, never a violation
	done := make(chan int, workers)
	for i := range procs {
		go func(i int) {
			err := procs[i].cmd.Wait()
			if err != nil {
				done <- 2
			} else {
				done <- 0
			}
		}(i)
	}
	bad := false
	timeout := time.After(plan.WallLimit + 10*time.Minute)
	for i := 0; i < workers; i++ {
		select {
		case rc := <-done:
			if rc != 0 {
				bad = true
			}
		case <-timeout:
			for _, p := range procs {
				p.cmd.Process.Kill()
			}
			fmt.Fprintf(os.Stderr, "WATCHDOG: workers did not finish within %v; machinery trouble (exit 2)\n", plan.WallLimit+10*time.Minute)
			return 2
		}
	}
	if bad {
		fmt.Fprintln(os.Stderr, "a worker process failed (see above); machinery trouble (exit 2)")
		return 2
	}
	merged := workerOut{Counters: map[string]int64{}, Known: map[string]int{}, KnownMsg: map[string]string{}}
	distinct := map[uint64]struct{}{}
	var events []string
	for _, p := range procs {
		b, err := os.ReadFile(p.out)
		if err != nil {
			fmt.Fprintln(os.Stderr, "missing worker output:", err)
			return 2
		}
		var wo workerOut
		if err := json.Unmarshal(b, &wo); err != nil {
			fmt.Fprintln(os.Stderr, "bad worker output:", err)
			return 2
		}
		merged.Runs += wo.Runs
		merged.Steps += wo.Steps
		for k, v := range wo.Counters {
			merged.Counters[k] += v
		}
		for _, h := range wo.Hashes {
			distinct[h] = struct{}{}
		}
		for k, v := range wo.Known {
			merged.Known[k] += v
			merged.KnownMsg[k] = wo.KnownMsg[k]
		}
		merged.Violations = append(merged.Violations, wo.Violations...)
		merged.Samples = append(merged.Samples, wo.Samples...)
		merged.Truncated = merged.Truncated || wo.Truncated
		events = append(events, wo.EventLog...)
	}
	if eventOut != "" {
		sort.Strings(events)
		os.WriteFile(eventOut, []byte(strings.Join(events, "\n")+"\n"), 0o644)
	}
	wall := time.Since(start).Seconds()

	// ---- report
	var knownKeys []string
	for k := range merged.Known {
		knownKeys = append(knownKeys, k)
	}
	sort.Strings(knownKeys)
	for _, k := range knownKeys {
		fmt.Printf("KNOWN-FINDING: property=%s %s (%d runs) e.g. %s\n", s.Property, k, merged.Known[k], merged.KnownMsg[k])
	}
	sort.Slice(merged.Violations, func(i, j int) bool { return merged.Violations[i].Run < merged.Violations[j].Run })
	seenV := map[string]bool{}
	var keepV []violation
	for _, v := range merged.Violations {
		// one line (and one replay file) per distinct (class, key): every worker stops at its
		// first violation, so the same defect is usually found several times
		if seenV[v.Class+"\x00"+v.Key] {
			os.Remove(v.Replay)
			continue
		}
		seenV[v.Class+"\x00"+v.Key] = true
		keepV = append(keepV, v)
	}
	merged.Violations = keepV
	for _, v := range merged.Violations {
		fmt.Printf("VIOLATION property=%s replay=%s\n", s.Property, v.Replay)
		fmt.Printf("  class=%s key=%q run=%d: %s\n", v.Class, v.Key, v.Run, v.Msg)
	}

	// ---- evidence
	faults := map[string]int64{}
	probes := map[string]int64{}
	other := map[string]int64{}
	for k, v := range merged.Counters {
		switch {
		case strings.HasPrefix(k, "fault."):
			faults[strings.TrimPrefix(k, "fault.")] = v
		case strings.HasPrefix(k, "probe."):
			probes[strings.TrimPrefix(k, "probe.")] = v
		default:
			other[k] = v
		}
	}
	var samples []interface{}
	sort.Slice(merged.Samples, func(i, j int) bool { return merged.Samples[i].Run < merged.Samples[j].Run })
	for i, sm := range merged.Samples {
		if i >= 4 {
			break
		}
		samples = append(samples, sm)
	}
	if len(samples) == 0 {
		samples = append(samples, "no sample recorded")
	}
	cov := map[string]interface{}{
		"evaluations":         merged.Runs,
		"distinct_nontrivial": len(distinct),
		"rule":                s.Rule,
		"samples":             samples,
		"exhaustive":          plan.Exhaustive && !merged.Truncated && len(merged.Violations) == 0,
		"exhaustive_scope":    plan.ExhaustiveScope,
		"enumerated_cases":    plan.Enum,
		"random_runs":         plan.Random,
		"runs_per_hour":       int64(float64(merged.Runs) / wall * 3600),
		"seeds_per_hour":      int64(float64(merged.Runs) / wall * 3600),
		"simulated_time":      fmt.Sprintf("%d logical steps (generated yield points executed inside library calls); mamba has no clock, so no simulated seconds exist", merged.Counters["steps"]),
		"logical_steps":       merged.Counters["steps"],
		"faults_fired":        faults,
		"probes":              probes,
		"counters":            other,
		"real_components":     s.Real,
		"stub_components":     s.Stubs,
		"truncated_by_wall":   merged.Truncated,
		"workers":             workers,
		"known_findings_hit":  merged.Known,
	}
	if s.Extra != nil {
		s.Extra(merged.Counters, cov)
	}
	ev := map[string]interface{}{
		"property_id": s.Property,
		"tier":        tier,
		"seed":        seed,
		"level":       s.Level,
		"coverage":    cov,
		"assumptions": s.Assumptions,
		"wall_s":      wall,
		"violations":  len(merged.Violations),
	}
	if evidence != "" {
		b, _ := json.MarshalIndent(ev, "", " ")
		os.MkdirAll(filepath.Dir(evidence), 0o755)
		if err := os.WriteFile(evidence, append(b, '\n'), 0o644); err != nil {
			fmt.Fprintln(os.Stderr, "cannot write evidence:", err)
			return 2
		}
	}
	fmt.Printf("%s %s %s: runs=%d (enum %d + random %d) distinct_nontrivial=%d steps=%d faults=%v wall=%.1fs violations=%d known=%d\n",
		s.Property, s.Engine, tier, merged.Runs, plan.Enum, plan.Random, len(distinct), merged.Counters["steps"], faults, wall, len(merged.Violations), len(merged.Known))
	if len(merged.Violations) > 0 {
		return 1
	}
	return 0
}

func procsOf(s *Spec) int {
	if len(s.ProcsSwarm) == 0 {
		return 0
	}
	return runtime.GOMAXPROCS(0)
}

func doReplay(s *Spec, path string, ks []known) int {
	b, err := os.ReadFile(path)
	if err != nil {
		fmt.Fprintln(os.Stderr, err)
		return 2
	}
	var rf replayFile
	if err := json.Unmarshal(b, &rf); err != nil {
		fmt.Fprintln(os.Stderr, err)
		return 2
	}
	if rf.Property != s.Property {
		fmt.Fprintf(os.Stderr, "replay file is for %s, this engine serves %s\n", rf.Property, s.Property)
		return 2
	}
	if rf.Procs > 0 && runtime.GOMAXPROCS(0) != rf.Procs && os.Getenv("VERIF_REPLAY_REEXEC") == "" {
		// the tree under test may have sized package-level state by GOMAXPROCS at start-up:
		// replay in a process that starts with the recorded value
		c := exec.Command(os.Args[0], os.Args[1:]...)
		c.Stdout, c.Stderr = os.Stdout, os.Stderr
		c.Env = append(os.Environ(), fmt.Sprintf("GOMAXPROCS=%d", rf.Procs), "VERIF_REPLAY_REEXEC=1")
		if err := c.Run(); err != nil {
			if ee, ok := err.(*exec.ExitError); ok {
				return ee.ExitCode()
			}
			fmt.Fprintln(os.Stderr, "replay re-execution failed:", err)
			return 2
		}
		return 0
	}
	tier := rf.Tier
	if tier == "" {
		tier = "quick"
	}
	if s.Setup != nil {
		s.Setup(tier)
	}
	var res result
	if rf.Sequence {
		plan := s.Plan(tier)
		if runsOverrideFlag != nil && *runsOverrideFlag >= 0 {
			plan.Random = *runsOverrideFlag
		}
		if plan.ColdEvery > 0 {
			s.ColdEvery = plan.ColdEvery
		}
		fmt.Printf("  (sequence replay: runs %d, %d, ..., %d of seed %d in this fresh process)\n", rf.SeqFirst, rf.SeqFirst+rf.SeqStep, rf.SeqLast, rf.Seed)
		for run := rf.SeqFirst; run <= rf.SeqLast; run += rf.SeqStep {
			res = execute(s, genTape(s, rf.Seed, run, plan), tier, run == rf.SeqLast)
		}
	} else {
		res = execute(s, tape.NewReplay(rf.Tape), tier, true)
	}
	for _, l := range res.trace {
		fmt.Println("  " + l)
	}
	if res.fail == nil {
		fmt.Printf("REPLAY property=%s: no violation on this tree (recorded class %s)\n", s.Property, rf.Class)
		return 0
	}
	th := traceHash(res.trace, res.obs)
	same := res.fail.Class == rf.Class && th == rf.TraceHash
	fmt.Printf("REPLAY property=%s class=%s key=%q trace_hash=%s identical_to_recorded=%v\n  %s\n", s.Property, res.fail.Class, res.fail.Key, th, same, res.fail.Msg)
	if k := isKnown(ks, res.fail); k != nil {
		fmt.Printf("KNOWN-FINDING: property=%s %s %s\n", s.Property, k.Class, k.Key)
		return 0
	}
	fmt.Printf("VIOLATION property=%s replay=%s\n", s.Property, path)
	return 1
}
