// Package sched is the deterministic goroutine scheduler of the simulator.
//
// Tasks are real goroutines, but exactly one holds the baton. The library under test
// calls verifhook.Yield at every function entry and loop head (generated, see
// tools/instrument); the hook decrements a quantum and, when it reaches zero, picks
// the next task from a PRNG that was seeded from the run's tape, wakes it and parks
// the caller. Park/wake are unbuffered channel operations wrapped in
// runtime.RaceDisable/RaceEnable, so the race detector sees no happens-before edge
// between tasks: a conflicting pair of accesses by two tasks is a data race to it
// whichever way this schedule happened to order them.
//
// All scheduler state lives in one struct that is touched only inside //go:norace
// functions and uses fixed-size arrays (no append, no maps: runtime helpers carry
// their own race annotations), so the scheduler cannot raise an alarm about itself.
package sched

import (
	"runtime"
	"sync"
	"time"

	"github.com/Tom-Johnston/mamba/verifhook"
)

const (
	MaxTasks = 8
	MaxSites = 4096
	traceCap = 512
)

const (
	PolCoarse  = iota // quantum uniform in [Q, 3Q], Q large
	PolUniform        // quantum uniform in [1, 2Q]
	PolPCT            // run to completion, with preemptions at given global yield ordinals
	PolSite           // like coarse, plus a preemption at the j-th visit of one site
)

type Config struct {
	Policy     int
	Q          int64
	Seed       uint64
	Preempt    [8]int64 // PolPCT: global yield ordinals (ascending, 0 = unused)
	NPreempt   int
	Site       int   // PolSite
	SiteVisit  int64 // PolSite: 1-based visit number
	StepBudget int64
	First      int
}

// Sentinel is thrown through library code when the run must be unwound (step budget
// exceeded, deadlock). The library contains no recover.
type Sentinel struct{ Why string }

type Stats struct {
	Yields, Switches int64
	PerTask          [MaxTasks]int64
	Over, Deadlock   bool
	Stuck            bool // no yield point was executed for StuckAfter of wall time: a task is blocked for real
	// StuckArtifact: at that moment some other live task was parked at an ordinary yield point,
	// i.e. runnable: the baton holder sits in a blocking operation the instrumenter does not
	// rewrite and the task that would release it never gets the baton. A limit of the
	// simulator, not a finding about the tree.
	StuckArtifact bool
	IHash         uint64
	SwitchTrace   []uint32 // task<<16 | site, first traceCap switches
	SiteHitDuring int      // PolSite: whether the chosen site visit happened
}

var st struct {
	active        bool
	n             int32
	cur           int32
	alive         [MaxTasks]bool
	parkedBlocked [MaxTasks]bool // the task gave the baton away because it could not proceed
	blockedStreak int64
	quantum       int64
	yields        int64
	switches      int64
	perTask       [MaxTasks]int64
	stepBudget    int64
	over          bool
	deadlock      bool
	rng           uint64
	cfg           Config
	nextPreempt   int
	siteVisits    int64
	siteHit       int
	trace         [traceCap]uint32
	traceLen      int32
	ihash         uint64
	siteSeen      [MaxSites]uint32
	sitePreempt   [MaxSites]uint32
	// goroutine identities (see getg): the tasks, and the goroutine that runs solo passes
	taskG   [MaxTasks]uintptr
	mainG   uintptr
	foreign int64 // yield points executed by goroutines the scheduler does not control
	// goroutines that existed when the scheduler was installed (harness only)
	baseGoroutines int
	foreignSeen    bool
	foreignStart   int64 // value of foreign when this pass began
	grace          int   // real-time patience spent before declaring a deadlock
	// solo mode
	solo       bool
	soloYields int64
	soloBudget int64
	soloOver   bool
}

var gates [MaxTasks]chan struct{}

func init() {
	for i := range gates {
		gates[i] = make(chan struct{})
	}
}

func park(id int32) { syncOff(); <-gates[id]; syncOn() }
func wake(id int32) { syncOff(); gates[id] <- struct{}{}; syncOn() }

//go:norace
func rnd() uint64 {
	st.rng += 0x9e3779b97f4a7c15
	z := st.rng
	z = (z ^ (z >> 30)) * 0xbf58476d1ce4e5b9
	z = (z ^ (z >> 27)) * 0x94d049bb133111eb
	return z ^ (z >> 31)
}

//go:norace
func drawQuantum() int64 {
	switch st.cfg.Policy {
	case PolUniform:
		return 1 + int64(rnd()%uint64(2*st.cfg.Q))
	case PolPCT:
		return 1 << 60
	default:
		return st.cfg.Q + int64(rnd()%uint64(2*st.cfg.Q+1))
	}
}

//go:norace
func pickAlive(except int32) int32 {
	cnt := int32(0)
	for i := int32(0); i < st.n; i++ {
		if st.alive[i] && i != except {
			cnt++
		}
	}
	if cnt == 0 {
		return -1
	}
	k := int32(rnd() % uint64(cnt))
	for i := int32(0); i < st.n; i++ {
		if st.alive[i] && i != except {
			if k == 0 {
				return i
			}
			k--
		}
	}
	return -1
}

//go:norace
func noteSwitch(from, to int32, site int) {
	st.switches++
	v := uint32(to)<<16 | uint32(site&0xffff)
	if st.traceLen < traceCap {
		st.trace[st.traceLen] = v
		st.traceLen++
	}
	h := st.ihash ^ uint64(v) ^ uint64(from)<<40
	h *= 0x100000001b3
	h ^= h >> 29
	st.ihash = h
	if site >= 0 && site < MaxSites {
		st.sitePreempt[site]++
	}
}

// decide is the heart of the hook. It returns (me, next, switch?, unwind?).
//
//go:norace
func decide(site int) (int32, int32, bool, bool) {
	if !st.active {
		if !st.solo {
			return 0, 0, false, false // idle: harness code building values between passes
		}
		if getg() != st.mainG {
			st.foreign++
			return 0, 0, false, false
		}
		st.soloYields++
		soloNote(site)
		if st.soloYields > st.soloBudget {
			st.soloOver = true
			return 0, 0, false, true
		}
		return 0, 0, false, false
	}
	if getg() != st.taskG[st.cur] {
		// a goroutine started by the tree under test itself: not ours to schedule
		st.foreign++
		return 0, 0, false, false
	}
	if st.over {
		return 0, 0, false, true
	}
	st.yields++
	st.perTask[st.cur]++
	st.blockedStreak = 0
	st.grace = 0
	if site >= 0 && site < MaxSites {
		st.siteSeen[site]++
	}
	if st.yields > st.stepBudget {
		st.over = true
		return 0, 0, false, true
	}
	force := false
	if st.cfg.Policy == PolPCT && st.nextPreempt < st.cfg.NPreempt && st.yields >= st.cfg.Preempt[st.nextPreempt] {
		st.nextPreempt++
		force = true
	}
	if st.cfg.Policy == PolSite && site == st.cfg.Site {
		st.siteVisits++
		if st.siteVisits == st.cfg.SiteVisit {
			force = true
			st.siteHit = 1
		}
	}
	st.quantum--
	if st.quantum > 0 && !force {
		return 0, 0, false, false
	}
	me := st.cur
	var next int32
	if force {
		next = pickAlive(me)
		if next < 0 {
			next = me
		}
	} else {
		next = pickAlive(-1)
	}
	st.quantum = drawQuantum()
	if force && st.cfg.Policy == PolSite {
		st.quantum = 1 + int64(rnd()%64) // let the other task run briefly inside the window
	}
	if next == me {
		return me, me, false, false
	}
	st.parkedBlocked[me] = false
	st.cur = next
	noteSwitch(me, next, site)
	return me, next, true, false
}

//go:norace
func decideBlocked(site int) (int32, int32, bool, bool, bool, bool) {
	if !st.active {
		return 0, 0, false, false, false, false
	}
	if getg() != st.taskG[st.cur] {
		st.foreign++
		return 0, 0, false, false, false, false // falls back to a real blocking operation
	}
	if st.over {
		return 0, 0, false, true, true, false
	}
	st.yields++
	st.perTask[st.cur]++
	st.blockedStreak++
	if st.yields > st.stepBudget {
		st.over = true
		return 0, 0, false, true, true, false
	}
	me := st.cur
	next := pickAlive(me)
	slow := false
	if foreignPossible() {
		// Goroutines the scheduler does not own exist (a worker pool inside the library, a
		// producer): they may yet complete the operation, so "all tasks are waiting" is not a
		// deadlock. A lone task blocks for real; several keep passing the baton round, slowly
		// once that has gone on for a while. Such polls are not steps of the system (they do not
		// count against the step budget, nor as progress: if nothing else happens for a minute
		// the monitor in Run declares the pass stuck).
		if next < 0 {
			st.yields--
			st.perTask[st.cur]--
			return 0, 0, false, false, false, false
		}
		if st.blockedStreak > 20000 {
			st.yields--
			st.perTask[st.cur]--
			slow = true
		}
	} else if next < 0 || st.blockedStreak > 20000 {
		// Every live task is waiting and no foreign goroutine has shown itself. One may exist all
		// the same (a worker of a pool started by an earlier pass that was handed a job a moment
		// ago and has not reached a yield point yet): the operation is retried for a quarter of
		// a second of real time before the pass is declared deadlocked.
		if st.grace < 250 {
			st.grace++
			st.yields--
			st.perTask[st.cur]--
			time.Sleep(time.Millisecond)
			return me, me, false, false, true, false
		}
		st.over = true
		st.deadlock = true
		return 0, 0, false, true, true, false
	}
	st.quantum = drawQuantum()
	st.parkedBlocked[me] = true
	st.cur = next
	if !slow {
		noteSwitch(me, next, site)
	}
	return me, next, true, false, true, slow
}

// foreignPossible reports whether goroutines exist that are neither harness nor tasks.
// The goroutine of a task that has just finished lingers for a moment: a surplus is only
// believed when it survives a few short sleeps, and is then remembered for this pass.
//
//go:norace
func foreignPossible() bool {
	if st.foreign > st.foreignStart || st.foreignSeen {
		return true
	}
	expected := st.baseGoroutines + 1
	for i := int32(0); i < st.n; i++ {
		if st.alive[i] {
			expected++
		}
	}
	for attempt := uint(0); attempt < 4; attempt++ {
		if runtime.NumGoroutine() <= expected {
			return false
		}
		time.Sleep(time.Duration(100<<(attempt*2)) * time.Microsecond)
	}
	st.foreignSeen = true
	return true
}

func hook(site int) {
	me, next, sw, unwind := decide(site)
	if unwind {
		panic(Sentinel{"step budget"})
	}
	if sw {
		wake(next)
		park(me)
		if isOver() {
			panic(Sentinel{"unwinding"})
		}
	}
}

func blockedHook(site int) bool {
	me, next, sw, unwind, active, slow := decideBlocked(site)
	if !active {
		return false
	}
	if unwind {
		panic(Sentinel{"deadlock or step budget"})
	}
	if slow {
		time.Sleep(20 * time.Microsecond)
	}
	if sw {
		wake(next)
		park(me)
		if isOver() {
			panic(Sentinel{"unwinding"})
		}
	}
	return true
}

//go:norace
func isOver() bool { return st.over }

// Yield is for harness code that runs inside a task (it is not instrumented).
func Yield() { hook(-1) }

// Blocked is for harness code inside a task that could not make progress on a channel.
// It reports false when no scheduler is active.
func Blocked() bool { return blockedHook(-1) }

// Install connects the generated yield points with this scheduler.
func Install() {
	verifhook.Hook = hook
	verifhook.BlockedHook = blockedHook
	setBase(runtime.NumGoroutine())
}

//go:norace
func setBase(n int) { st.baseGoroutines = n }

// ---- solo mode: count the yields of a closure run alone -------------------------------

//go:norace
func soloBegin(budget int64) {
	st.active = false
	st.mainG = getg()
	st.solo = true
	st.soloYields = 0
	st.soloBudget = budget
	st.soloOver = false
}

//go:norace
func soloEnd() (int64, bool) { st.solo = false; return st.soloYields, st.soloOver }

// Solo runs f alone with the scheduler inactive; it returns the number of yields, the
// recovered panic (nil if none) and whether the budget was exceeded.
func Solo(budget int64, f func()) (yields int64, pan interface{}, over bool) {
	soloBegin(budget)
	func() {
		defer func() { pan = recover() }()
		f()
	}()
	yields, over = soloEnd()
	if _, ok := pan.(Sentinel); ok {
		pan = nil
	}
	return
}

// ---- concurrent mode -----------------------------------------------------------------------

//go:norace
func setup(n int, cfg Config) {
	st.active = true
	st.n = int32(n)
	for i := range st.alive {
		st.alive[i] = i < n
	}
	st.cur = int32(cfg.First % n)
	st.cfg = cfg
	st.rng = cfg.Seed
	st.blockedStreak = 0
	st.parkedBlocked = [MaxTasks]bool{}
	st.foreignSeen = false
	st.foreignStart = st.foreign
	st.grace = 0
	st.yields, st.switches = 0, 0
	st.perTask = [MaxTasks]int64{}
	st.stepBudget = cfg.StepBudget
	st.over, st.deadlock = false, false
	st.nextPreempt = 0
	st.siteVisits, st.siteHit = 0, 0
	st.traceLen = 0
	st.ihash = 0
	st.quantum = drawQuantum()
	if cfg.Policy == PolSite {
		st.quantum = 1 << 60 // run the first task until the chosen site visit (or its end)
	}
}

//go:norace
func firstTask() int32 { return st.cur }

//go:norace
func registerTask(id int32) { st.taskG[id] = getg() }

// ForeignYields reports how many yield points were executed by goroutines the scheduler
// does not control (started by the tree under test) since process start.
//
//go:norace
func ForeignYields() int64 { return st.foreign }

// finish marks task id as done and returns the task to wake (-1: none left).
//
//go:norace
func finish(id int32) int32 {
	st.alive[id] = false
	next := pickAlive(-1)
	if next >= 0 {
		st.cur = next
		st.quantum = drawQuantum()
		noteSwitch(id, next, -1)
	}
	return next
}

//go:norace
func teardown() Stats {
	st.active = false
	s := Stats{Yields: st.yields, Switches: st.switches, PerTask: st.perTask, Over: st.over, Deadlock: st.deadlock, IHash: st.ihash, SiteHitDuring: st.siteHit}
	s.SwitchTrace = make([]uint32, st.traceLen)
	copy(s.SwitchTrace, st.trace[:st.traceLen])
	return s
}

// Run executes the tasks under the scheduler and returns per-task panics (nil = none;
// a Sentinel is reported as nil panic with Stats.Over set) and statistics.
func Run(cfg Config, tasks []func()) ([]interface{}, Stats) {
	n := len(tasks)
	if n == 0 || n > MaxTasks {
		panic("sched: bad task count")
	}
	pans := make([]interface{}, n)
	setBase(runtime.NumGoroutine()) // harness goroutines, and whatever earlier passes left behind
	setup(n, cfg)
	var wg sync.WaitGroup
	for i := 0; i < n; i++ {
		wg.Add(1)
		go func(id int32) {
			defer wg.Done()
			registerTask(id)
			park(id) // nobody runs before the scheduler says so
			func() {
				defer func() {
					if p := recover(); p != nil {
						if _, ok := p.(Sentinel); !ok {
							pans[id] = p
						}
					}
				}()
				if !isOver() {
					tasks[id]()
				}
			}()
			if next := finish(id); next >= 0 {
				wake(next)
			}
		}(int32(i))
	}
	wake(firstTask())
	done := make(chan struct{})
	go func() { wg.Wait(); close(done) }()
	last, idle := progress(), 0
	for {
		select {
		case <-done:
			return pans, teardown()
		case <-time.After(2 * time.Second):
			if p := progress(); p != last {
				last, idle = p, 0
			} else if idle++; idle >= StuckAfterTicks {
				// Not a single yield point in a minute: the baton holder is blocked in a real
				// blocking operation (one the instrumenter does not rewrite). The tasks cannot be
				// unwound; the caller must report and let the process end.
				s := teardown()
				s.Stuck = true
				s.StuckArtifact = runnableBesidesHolder()
				return pans, s
			}
		}
	}
}

// StuckAfterTicks: number of consecutive 2-second ticks without any executed yield point
// after which a concurrent pass is declared stuck.
var StuckAfterTicks = 30

//go:norace
func progress() int64 { return st.yields + st.foreign }

//go:norace
func runnableBesidesHolder() bool {
	for i := int32(0); i < st.n; i++ {
		if i != st.cur && st.alive[i] && !st.parkedBlocked[i] {
			return true
		}
	}
	return false
}

// Coverage returns, per site, how often it was executed / used as a switch point in
// concurrent mode since process start.
//
//go:norace
func Coverage() (seen, preempt []uint32) {
	seen = make([]uint32, MaxSites)
	preempt = make([]uint32, MaxSites)
	copy(seen, st.siteSeen[:])
	copy(preempt, st.sitePreempt[:])
	return
}

// ---- solo site profile (to aim PolSite / PolPCT at places that are really executed) ----

var soloSites [MaxSites]uint32

//go:norace
func soloNote(site int) {
	if site >= 0 && site < MaxSites {
		soloSites[site]++
	}
}

//go:norace
func SoloSitesReset() { soloSites = [MaxSites]uint32{} }

// SoloSites returns the sites executed by solo passes since the last reset, with counts.
//
//go:norace
func SoloSites() (sites []int, counts []uint32) {
	for i, c := range soloSites {
		if c > 0 {
			sites = append(sites, i)
			counts = append(counts, c)
		}
	}
	return
}
