#include "textflag.h"

// func getg() uintptr
// The address of the running goroutine's g structure: a cheap goroutine identity.
TEXT ·getg(SB),NOSPLIT,$0-8
	MOVQ (TLS), AX
	MOVQ AX, ret+0(FP)
	RET
