//go:build !race

package sched

func syncOff()        {}
func syncOn()         {}
func RaceBuild() bool { return false }
