package sched

// getg returns the address of the current goroutine's runtime g structure. It is used
// only to tell the goroutines the scheduler controls (its tasks, and the goroutine running
// solo passes) from goroutines the tree under test may start itself: yield points executed
// by those are ignored instead of corrupting the baton protocol.
func getg() uintptr
