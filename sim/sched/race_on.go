//go:build race

package sched

import "runtime"

// With RaceDisable the race detector ignores *synchronisation* events of the calling
// goroutine while it still records its memory accesses: the baton hand-over below
// therefore creates no happens-before edge between tasks.
func syncOff()        { runtime.RaceDisable() }
func syncOn()         { runtime.RaceEnable() }
func RaceBuild() bool { return true }
