// Package tape is the single source of every decision in a simulated run.
//
// One run = one Tape. Every choice (scenario, sizes, operations, schedule, faults)
// is a Draw(bound); the drawn values are recorded, and the recorded list is the
// replay file. Value 0 is by convention the simplest choice, and a replayed tape
// that is shorter than needed yields 0s, so shrinking (deleting / zeroing / halving
// draws) always produces a valid, simpler run.
package tape

// SplitMix64 is a tiny PRNG implemented here so that the stream never depends on a
// Go release.
type SplitMix64 struct{ S uint64 }

func (r *SplitMix64) Next() uint64 {
	r.S += 0x9e3779b97f4a7c15
	z := r.S
	z = (z ^ (z >> 30)) * 0xbf58476d1ce4e5b9
	z = (z ^ (z >> 27)) * 0x94d049bb133111eb
	return z ^ (z >> 31)
}

// Mix hashes a list of integers into one (order sensitive).
func Mix(vs ...uint64) uint64 {
	h := uint64(0x243f6a8885a308d3)
	for _, v := range vs {
		r := SplitMix64{S: h ^ v}
		h = r.Next()
	}
	return h
}

// HashString is FNV-1a, 64 bit.
func HashString(s string) uint64 {
	h := uint64(14695981039346656037)
	for i := 0; i < len(s); i++ {
		h ^= uint64(s[i])
		h *= 1099511628211
	}
	return h
}

const MaxDraws = 4 << 20

type Tape struct {
	preset []uint64
	rng    *SplitMix64 // nil: replay mode (beyond preset => 0)
	Rec    []uint64
}

// NewGen returns a generating tape: the first draws are forced to prefix, the rest
// come from the PRNG seeded with seed.
func NewGen(seed uint64, prefix []uint64) *Tape {
	return &Tape{preset: prefix, rng: &SplitMix64{S: seed}}
}

// NewReplay returns a tape that replays vals and then yields zeros.
func NewReplay(vals []uint64) *Tape { return &Tape{preset: vals} }

type Overrun struct{}

// Draw returns a value in [0, bound). bound < 1 is treated as 1.
func (t *Tape) Draw(bound int) int {
	if bound < 1 {
		bound = 1
	}
	if len(t.Rec) >= MaxDraws {
		panic(Overrun{})
	}
	var v uint64
	pos := len(t.Rec)
	if pos < len(t.preset) {
		v = t.preset[pos] % uint64(bound)
	} else if t.rng != nil {
		v = t.rng.Next() % uint64(bound)
	}
	t.Rec = append(t.Rec, v)
	return int(v)
}

// Range returns a value in [lo, hi] (inclusive), lo being the simplest.
func (t *Tape) Range(lo, hi int) int {
	if hi < lo {
		hi = lo
	}
	return lo + t.Draw(hi-lo+1)
}

// Chance is true with probability num/den; false is the simple choice.
func (t *Tape) Chance(num, den int) bool { return t.Draw(den) >= den-num }

// Weighted picks an index with the given weights; index 0 is the simple choice.
func (t *Tape) Weighted(w []int) int {
	tot := 0
	for _, x := range w {
		tot += x
	}
	v := t.Draw(tot)
	for i, x := range w {
		if v < x {
			return i
		}
		v -= x
	}
	return len(w) - 1
}

// Int64 draws a full 63-bit value (two draws), 0 simplest.
func (t *Tape) Uint32() uint32 { return uint32(t.Draw(1 << 32)) }

// Perm returns a permutation of 0..n-1 (identity is the simple choice).
func (t *Tape) Perm(n int) []int {
	p := make([]int, n)
	for i := range p {
		p[i] = i
	}
	for i := 0; i < n-1; i++ {
		j := i + t.Draw(n-i)
		p[i], p[j] = p[j], p[i]
	}
	return p
}

func (t *Tape) Pos() int { return len(t.Rec) }
