package graph_test

import (
	"math/rand"
	"testing"

	"github.com/Tom-Johnston/mamba/graph"
)

//invRelabel returns the graph obtained from g by renaming vertex i to p[i].
func invRelabel(g graph.Graph, p []int) *graph.DenseGraph {
	n := g.N()
	h := graph.NewDense(n, nil)
	for i := 0; i < n; i++ {
		for j := 0; j < i; j++ {
			if g.IsEdge(i, j) {
				h.AddEdge(p[i], p[j])
			}
		}
	}
	return h
}

//invBruteOrbits returns for every vertex the smallest vertex in its orbit, found by enumerating all automorphisms.
func invBruteOrbits(g graph.Graph) []int {
	n := g.N()
	deg := g.Degrees()
	rep := make([]int, n)
	for i := range rep {
		rep[i] = i
	}
	p := make([]int, n)
	used := make([]bool, n)
	var rec func(i int)
	rec = func(i int) {
		if i == n {
			for v, w := range p {
				if w < rep[v] {
					rep[v] = w
				}
			}
			return
		}
		for c := 0; c < n; c++ {
			if used[c] || deg[c] != deg[i] {
				continue
			}
			ok := true
			for j := 0; j < i && ok; j++ {
				ok = g.IsEdge(i, j) == g.IsEdge(c, p[j])
			}
			if !ok {
				continue
			}
			used[c] = true
			p[i] = c
			rec(i + 1)
			used[c] = false
		}
	}
	rec(0)
	//rep[v] is the smallest image of v, which is the smallest element of the orbit of v.
	return rep
}

func invIsAutomorphism(g graph.Graph, a []int) bool {
	n := g.N()
	if len(a) != n {
		return false
	}
	seen := make([]bool, n)
	for _, v := range a {
		if v < 0 || v >= n || seen[v] {
			return false
		}
		seen[v] = true
	}
	for i := 0; i < n; i++ {
		for j := 0; j < i; j++ {
			if g.IsEdge(i, j) != g.IsEdge(a[i], a[j]) {
				return false
			}
		}
	}
	return true
}

//invCheck checks that the canonical isomorph of g does not depend on the labelling of g and, if checkOrbits is true, that the returned orbits and generators are correct (for the first two labellings only as this is slow).
func invCheck(t *testing.T, name string, g graph.Graph, r *rand.Rand, relabellings int, checkOrbits bool) bool {
	t.Helper()
	n := g.N()
	want := ""
	for k := 0; k < relabellings; k++ {
		p := r.Perm(n)
		if k == 0 {
			for i := range p {
				p[i] = i
			}
		}
		h := invRelabel(g, p)
		perm, orbits, gens := graph.CanonicalIsomorphFull(h, nil)
		c := graph.Graph6Encode(graph.InducedSubgraph(h, perm))
		if k == 0 {
			want = c
		} else if c != want {
			t.Errorf("%v (%v): canonical isomorph depends on the labelling: %v and %v (relabelling %v)", name, graph.Graph6Encode(g), want, c, p)
			return false
		}
		if checkOrbits && n > 0 && k < 2 {
			for _, a := range gens {
				if !invIsAutomorphism(h, a) {
					t.Errorf("%v (%v): generator %v is not an automorphism (relabelling %v)", name, graph.Graph6Encode(g), a, p)
					return false
				}
			}
			got := orbits.SmallestRep()
			exp := invBruteOrbits(h)
			for i := range exp {
				if got[i] != exp[i] {
					t.Errorf("%v (%v): orbits %v, want %v (relabelling %v)", name, graph.Graph6Encode(g), got, exp, p)
					return false
				}
			}
		}
	}
	return true
}

//invRandomRegular returns a random d-regular graph on n vertices using the pairing model with restarts.
func invRandomRegular(n, d int, r *rand.Rand) *graph.DenseGraph {
	for {
		points := make([]int, 0, n*d)
		for i := 0; i < n; i++ {
			for j := 0; j < d; j++ {
				points = append(points, i)
			}
		}
		r.Shuffle(len(points), func(i, j int) { points[i], points[j] = points[j], points[i] })
		g := graph.NewDense(n, nil)
		ok := true
		for i := 0; i < len(points); i += 2 {
			u, v := points[i], points[i+1]
			if u == v || g.IsEdge(u, v) {
				ok = false
				break
			}
			g.AddEdge(u, v)
		}
		if ok {
			return g
		}
	}
}

func invCirculant(n int, jumps ...int) *graph.DenseGraph {
	g := graph.NewDense(n, nil)
	for i := 0; i < n; i++ {
		for _, j := range jumps {
			if k := (i + j) % n; k != i && !g.IsEdge(i, k) {
				g.AddEdge(i, k)
			}
		}
	}
	return g
}

func TestCanonicalIsomorphRelabellingRegression(t *testing.T) {
	//A cubic graph on 10 vertices with 6 automorphisms.
	g, err := graph.Graph6Decode("II`XPAP_o")
	if err != nil {
		t.Fatal(err)
	}
	invCheck(t, "cubic10", g, rand.New(rand.NewSource(1)), 500, true)
}

func TestCanonicalIsomorphRelabellingSmall(t *testing.T) {
	r := rand.New(rand.NewSource(2))
	//Every labelled graph on at most 6 vertices.
	for n := 0; n <= 6; n++ {
		pairs := n * (n - 1) / 2
		for mask := 0; mask < 1<<uint(pairs); mask++ {
			g := graph.NewDense(n, nil)
			b := 0
			for i := 0; i < n; i++ {
				for j := 0; j < i; j++ {
					if mask&(1<<uint(b)) != 0 {
						g.AddEdge(i, j)
					}
					b++
				}
			}
			if !invCheck(t, "small", g, r, 3, true) {
				return
			}
		}
	}
	//Random graphs on 7 to 9 vertices.
	for n := 7; n <= 9; n++ {
		for k := 0; k < 500; k++ {
			g := graph.NewDense(n, nil)
			prob := 0.15 + 0.7*r.Float64()
			for i := 0; i < n; i++ {
				for j := 0; j < i; j++ {
					if r.Float64() < prob {
						g.AddEdge(i, j)
					}
				}
			}
			if !invCheck(t, "random", g, r, 10, true) {
				return
			}
		}
	}
}

func TestCanonicalIsomorphRelabellingRegular(t *testing.T) {
	r := rand.New(rand.NewSource(3))
	failures := 0
	for _, nd := range [][2]int{{8, 3}, {10, 3}, {10, 4}, {12, 3}, {12, 4}, {14, 3}} {
		for k := 0; k < 150; k++ {
			g := invRandomRegular(nd[0], nd[1], r)
			if !invCheck(t, "regular", g, r, 50, nd[0] <= 10) {
				failures++
				if failures >= 5 {
					return
				}
			}
		}
	}
}

func TestCanonicalIsomorphRelabellingSymmetric(t *testing.T) {
	r := rand.New(rand.NewSource(4))
	graphs := map[string]graph.Graph{}
	for n := 3; n <= 13; n++ {
		graphs["cycle"+string(rune('a'+n))] = invCirculant(n, 1)
		if n >= 5 {
			graphs["circ12"+string(rune('a'+n))] = invCirculant(n, 1, 2)
			graphs["circ13"+string(rune('a'+n))] = invCirculant(n, 1, 3)
		}
		if n >= 8 {
			graphs["circ14"+string(rune('a'+n))] = invCirculant(n, 1, 4)
			graphs["circ23"+string(rune('a'+n))] = invCirculant(n, 2, 3)
		}
		if n%2 == 0 {
			graphs["moebius"+string(rune('a'+n))] = invCirculant(n, 1, n/2)
		}
	}
	//The Petersen graph.
	petersen := graph.NewDense(10, nil)
	for i := 0; i < 5; i++ {
		petersen.AddEdge(i, (i+1)%5)
		petersen.AddEdge(i, i+5)
		petersen.AddEdge(i+5, (i+2)%5+5)
	}
	graphs["petersen"] = petersen
	//Hypercubes.
	for d := 2; d <= 4; d++ {
		q := graph.NewDense(1<<uint(d), nil)
		for i := 0; i < 1<<uint(d); i++ {
			for b := 0; b < d; b++ {
				if j := i ^ (1 << uint(b)); j < i {
					q.AddEdge(i, j)
				}
			}
		}
		graphs["cube"+string(rune('0'+d))] = q
	}
	//Complete multipartite graphs, disjoint unions of cliques and prisms.
	for parts := 2; parts <= 4; parts++ {
		for size := 2; size <= 3; size++ {
			n := parts * size
			km := graph.NewDense(n, nil)
			un := graph.NewDense(n, nil)
			pr := graph.NewDense(n, nil)
			for i := 0; i < n; i++ {
				for j := 0; j < i; j++ {
					if i/size != j/size {
						km.AddEdge(i, j)
					} else {
						un.AddEdge(i, j)
						pr.AddEdge(i, j)
					}
					if i/size != j/size && i%size == j%size && (i/size-j/size == 1 || i/size-j/size == parts-1) && !pr.IsEdge(i, j) {
						pr.AddEdge(i, j)
					}
				}
			}
			graphs["multipartite"+string(rune('0'+parts))+string(rune('0'+size))] = km
			graphs["cliques"+string(rune('0'+parts))+string(rune('0'+size))] = un
			graphs["prism"+string(rune('0'+parts))+string(rune('0'+size))] = pr
		}
	}
	for name, g := range graphs {
		invCheck(t, name, g, r, 50, g.N() <= 10)
	}
}

//invCheckColoured checks that the canonical isomorph of g with the given vertex colouring does not depend on the labelling.
func invCheckColoured(t *testing.T, g graph.Graph, colour []int, numColours int, r *rand.Rand, relabellings int) bool {
	t.Helper()
	n := g.N()
	want := ""
	for k := 0; k < relabellings; k++ {
		p := r.Perm(n)
		h := invRelabel(g, p)
		//The classes are sorted as we run through the new labels in order.
		inv := make([]int, n)
		for i, v := range p {
			inv[v] = i
		}
		classes := make([][]int, numColours)
		for v := 0; v < n; v++ {
			c := colour[inv[v]]
			classes[c] = append(classes[c], v)
		}
		nonEmpty := classes[:0]
		for _, c := range classes {
			if len(c) > 0 {
				nonEmpty = append(nonEmpty, c)
			}
		}
		perm, _, gens := graph.CanonicalIsomorphFull(h, nonEmpty)
		for _, a := range gens {
			if !invIsAutomorphism(h, a) {
				t.Errorf("coloured %v %v: generator %v is not an automorphism", graph.Graph6Encode(h), nonEmpty, a)
				return false
			}
			for v, w := range a {
				if colour[inv[v]] != colour[inv[w]] {
					t.Errorf("coloured %v %v: generator %v does not preserve the colours", graph.Graph6Encode(h), nonEmpty, a)
					return false
				}
			}
		}
		c := graph.Graph6Encode(graph.InducedSubgraph(h, perm))
		for _, v := range perm {
			c += string(rune('0' + colour[inv[v]]))
		}
		if k == 0 {
			want = c
		} else if c != want {
			t.Errorf("coloured %v %v: canonical isomorph depends on the labelling: %v and %v", graph.Graph6Encode(h), nonEmpty, want, c)
			return false
		}
	}
	return true
}

func TestCanonicalIsomorphRelabellingColoured(t *testing.T) {
	r := rand.New(rand.NewSource(5))
	failures := 0
	for _, nd := range [][2]int{{8, 3}, {10, 3}, {10, 4}, {12, 3}, {12, 4}} {
		for k := 0; k < 100; k++ {
			g := invRandomRegular(nd[0], nd[1], r)
			numColours := 2 + r.Intn(2)
			colour := make([]int, nd[0])
			for i := range colour {
				if r.Intn(3) == 0 {
					colour[i] = 1 + r.Intn(numColours-1)
				}
			}
			if !invCheckColoured(t, g, colour, numColours, r, 30) {
				failures++
				if failures >= 5 {
					return
				}
			}
		}
	}
}
