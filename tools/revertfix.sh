#!/bin/bash
# For every "fix:" commit in /repo: revert it in a scratch worktree and run the property's quick
# check, which must report the defect again (a fixed entry in known_findings.json suppresses nothing).
export GOFLAGS=-mod=mod GOPROXY=off GOSUMDB=off GOTOOLCHAIN=local
cd "$(dirname "$0")/.."
declare -A PROP=( ["tsp.LIB"]=C20 ["SortedInts.Add"]=C17 ["sortints.Range"]=C17 ["sortints.Complement"]=C17 ["SparseGraph.RemoveVertex"]=C05 ["Graph6Decode"]=C08 ["dawg Finish"]=C12 ["dawg Builder.Add"]=C12 ["vertex classes"]=C02 ["largest vertex as the root"]=C02 ["members in any order"]=C02 ["does not overflow"]=C17 )
git -C /repo log --format='%h %s' | grep ' fix: ' | while read h rest; do
  prop=""
  for k in "${!PROP[@]}"; do case "$rest" in *"$k"*) prop=${PROP[$k]};; esac; done
  [ -n "$prop" ] || { echo "$h: no property mapped ($rest)"; continue; }
  wt=$(mktemp -d /tmp/rev-XXXXXX); rmdir "$wt"
  git -C /repo worktree add -q --detach "$wt" HEAD
  ok=0; also=""
  if (cd "$wt" && git revert -n "$h" >/dev/null 2>&1); then ok=1
  else
    # later fixes touch the same lines: revert those first (newest first), then this one
    (cd "$wt" && git revert --abort >/dev/null 2>&1; git reset -q --hard)
    files=$(git -C /repo show --format= --name-only "$h")
    later=$(git -C /repo log --format=%h "$h"..HEAD -- $files)
    if (cd "$wt" && for l in $later; do git revert -n "$l" >/dev/null 2>&1 || exit 1; done && git revert -n "$h" >/dev/null 2>&1); then ok=1; also=" (together with later fixes on the same lines: $(echo $later))"; fi
  fi
  if [ $ok = 1 ]; then
    out=$(VERIF_REPO="$wt" VERIF_EVIDENCE_DIR="$wt/.ev" VERIF_REPLAYS_DIR="$wt/.rp" ./check "$prop" quick 2>&1); rc=$?
    echo "$h $prop rc=$rc $(echo "$out" | grep -A1 '^VIOLATION' | sed -n 2p | cut -c1-150)  <- revert of: $rest$also"
  else
    echo "$h $prop: revert does not apply cleanly (later fixes touch the same lines)  <- $rest"
  fi
  git -C /repo worktree remove --force "$wt"; rm -rf "$wt"
done
