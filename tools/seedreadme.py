#!/usr/bin/env python3
"""Regenerates seeded/README.md from seeded/*/meta.json and result.json."""
import json, glob, os
V = os.path.dirname(os.path.dirname(os.path.abspath(__file__)))
rows = []
st = json.load(open(os.path.join(V, "seeded", "strengthening.json")))
for d in sorted([x for x in glob.glob(os.path.join(V, "seeded", "*", "")) if not os.path.basename(os.path.dirname(x)).startswith("_")]):
    try:
        m = json.load(open(d + "meta.json")); r = json.load(open(d + "result.json"))
    except Exception:
        continue
    rows.append((os.path.basename(d.rstrip("/")), m.get("property"), m.get("summary", "").replace("\n", " ")[:260], m.get("needs_to_manifest", "").replace("\n", " ")[:200],
                 "yes" if r.get("valid_seed") else "NO", ("yes (%s)" % r.get("tier")) if r.get("caught") else "**no**", r.get("first_violation", "").strip()[:200].replace("|", "/")))
out = ["# Seeded changes", "",
       "Each directory holds a change to Tom-Johnston/mamba written by a sub-agent that saw only the property text and a scratch worktree (`patch.diff`), its own demonstration (`demo_test.go`), `meta.json`, and `result.json` = what `tools/seedtest.sh` ran and saw: the demonstration passes without the patch, the patch applies and builds, the repository's own suite still passes, the demonstration fails with the patch, and the property's check run against the patched scratch tree (`VERIF_REPO=<scratch> ./check <ID> <tier>`).", "",
       "| seed | property | change | needs | confirmed | caught by ./check | first violation reported |", "|---|---|---|---|---|---|---|"]
for r in rows:
    out.append("| %s | %s | %s | %s | %s | %s | %s |" % r)
out.append("")
out.append("## Seeds that were missed at first and what was strengthened\n")
for k in sorted(st):
    out.append("* **%s** — %s" % (k, st[k]))
out.append("")
out.append("%d seeds, %d confirmed, %d caught." % (len(rows), sum(1 for r in rows if r[4] == "yes"), sum(1 for r in rows if r[5].startswith("yes"))))
open(os.path.join(V, "seeded", "README.md"), "w").write("\n".join(out) + "\n")
print(out[-1])
