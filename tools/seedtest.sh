#!/bin/bash
# seedtest.sh <seeded-dir> [tier]   — confirms a seeded change and runs the property's check against it.
#  1. scratch worktree of /repo HEAD; demo passes without the patch
#  2. patch applies, tree builds, the repository's own tests pass, demo fails
#  3. ./check <property> <tier> with VERIF_REPO=<worktree> must exit 1 with a VIOLATION line
# Never touches /repo's working tree. Prints one summary line; details in <seeded-dir>/result.json
set -u
export GOFLAGS=-mod=mod GOPROXY=off GOSUMDB=off GOTOOLCHAIN=local
d=$(cd "$1" && pwd); tier=${2:-quick}
V=$(cd "$(dirname "$0")/.." && pwd)
prop=$(python3 -c "import json,sys;print(json.load(open(sys.argv[1]))['property'])" "$d/meta.json")
wt=$(mktemp -d /tmp/seed-XXXXXX); rmdir "$wt"
git -C /repo worktree add -q --detach "$wt" HEAD || exit 2
trap 'git -C /repo worktree remove --force "$wt" >/dev/null 2>&1; rm -rf "$wt"' EXIT
pkg=$(head -1 "$d/demo_test.go" | sed -n 's#^// *copy to: *\([^ ]*\).*#\1#p; s#^// *Copy this file into the package directory \([^ ]*\).*#\1#p'); pkg=${pkg%/}
[ -n "$pkg" ] || { echo "$d: demo_test.go lacks '// copy to:' line"; exit 2; }
demo="$wt/$pkg/zz_seed_demo_test.go"
cp "$d/demo_test.go" "$demo"
demo_clean=fail; (cd "$wt/$pkg" && timeout 600 go test -race -vet=off -count=1 . >"$wt/.demo_clean.log" 2>&1) && demo_clean=pass
rm -f "$demo"
applies=no; (cd "$wt" && git apply "$d/patch.diff" 2>"$wt/.apply.log") && applies=yes
builds=no; (cd "$wt" && go build ./... >/dev/null 2>&1) && builds=yes
suite=fail; (cd "$wt" && timeout 1500 go test -vet=off -count=1 ./... >"$wt/.suite.log" 2>&1) && suite=pass
cp "$d/demo_test.go" "$demo"
demo_patched=pass; (cd "$wt/$pkg" && timeout 600 go test -race -vet=off -count=1 . >"$wt/.demo_patched.log" 2>&1) || demo_patched=fail
rm -f "$demo"
out=$(cd "$V" && VERIF_REPO="$wt" VERIF_EVIDENCE_DIR="$wt/.evidence" VERIF_REPLAYS_DIR="$wt/.replays" ./check "$prop" "$tier" 2>&1); rc=$?
if [ -d "$wt/.replays" ]; then f=$(ls "$wt/.replays"/*.json 2>/dev/null | head -1); [ -n "$f" ] && cp "$f" "$d/replay.json"; fi
viol=$(echo "$out" | grep -c '^VIOLATION')
first=$(echo "$out" | grep -A1 '^VIOLATION' | head -2 | tail -1 | cut -c1-400)
valid=no; [ "$demo_clean" = pass ] && [ "$applies" = yes ] && [ "$builds" = yes ] && [ "$suite" = pass ] && [ "$demo_patched" = fail ] && valid=yes
caught=no; [ $rc -eq 1 ] && [ "$viol" -ge 1 ] && caught=yes
python3 - "$d" "$prop" "$tier" "$valid" "$caught" "$rc" "$demo_clean" "$applies" "$builds" "$suite" "$demo_patched" "$first" <<'PY'
import json,sys
d,prop,tier,valid,caught,rc,dc,ap,bu,su,dp,first=sys.argv[1:13]
json.dump({"property":prop,"tier":tier,"valid_seed":valid=="yes","caught":caught=="yes","check_exit":int(rc),
 "demo_without_patch":dc,"patch_applies":ap,"builds":bu,"repo_suite_with_patch":su,"demo_with_patch":dp,
 "first_violation":first,
 "ran":["git worktree add <scratch> HEAD","go test -race <pkg> with demo (no patch)","git apply patch.diff","go build ./...","go test -vet=off -count=1 ./... (patched, without demo)","go test -race <pkg> with demo (patched)","VERIF_REPO=<scratch> ./check %s %s"%(prop,tier)]},
 open(d+"/result.json","w"),indent=1)
PY
echo "$(basename "$d") prop=$prop valid_seed=$valid (demo_clean=$demo_clean applies=$applies builds=$builds suite=$suite demo_patched=$demo_patched) caught=$caught rc=$rc :: $first"
