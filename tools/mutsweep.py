#!/usr/bin/env python3
"""Systematic syntactic mutation sweep (sensitivity evidence, complementary to the hand-written
and sub-agent-written changes): small operator / constant mutations are applied one at a time to the
files a property is anchored in, in a scratch worktree. A mutant that still builds and passes the
repository's own tests is handed to the property's quick check.
Output: one JSON line per mutant in selfmut/mutsweep.jsonl, summary in selfmut/mutsweep_summary.json.
Usage: mutsweep.py <mutants-per-file> [seed]"""
import subprocess, sys, os, json, re, random, tempfile, shutil, time
ENV = dict(os.environ, GOFLAGS="-mod=mod", GOPROXY="off", GOSUMDB="off", GOTOOLCHAIN="local", VERIF_WORKERS="8")
V = os.path.dirname(os.path.dirname(os.path.abspath(__file__)))
FILES = [
 ("tsp/tsplib.go", ["C20"], None), ("disjoint/disjoint_set.go", ["C18"], None),
 ("sortints/sorted_ints.go", ["C17"], None), ("ints/int_sort.go", ["C17"], None),
 ("graph/graph_dense.go", ["C05"], None), ("graph/graph_sparse.go", ["C05"], None),
 ("graph/encoding.go", ["C08"], (14, 370)), ("dawg/dawg.go", ["C12"], (1, 245)),
 ("graph/canonical.go", ["C02"], None), ("graph/search/search_all.go", ["C03", "C04"], None),
]
SUBS = [(" < ", " <= "), (" <= ", " < "), (" > ", " >= "), (" >= ", " > "), (" == ", " != "), (" != ", " == "),
        ("+ 1", "+ 2"), ("- 1", "- 0"), ("+1", "+2"), ("-1", "-2"), (" && ", " || "), (" || ", " && "),
        ("++", "--"), ("[:0]", "[:1]"), (" = 0", " = 1"), ("i + ", "i - "), ("j + ", "j - ")]

def sh(cmd, cwd=None, timeout=900):
    try:
        p = subprocess.run(cmd, shell=True, cwd=cwd, env=ENV, stdout=subprocess.PIPE, stderr=subprocess.STDOUT, text=True, errors="replace", timeout=timeout)
        return p.returncode, p.stdout
    except subprocess.TimeoutExpired:
        return 124, "timeout"

def sites(path, rng_):
    lines = open(path).read().split("\n")
    out = []
    for i, l in enumerate(lines):
        if rng_ and not (rng_[0] <= i + 1 <= rng_[1]):
            continue
        code = l.split("//")[0]
        if not code.strip() or code.strip().startswith(("import", "package", "func ", "type ", "}")):
            continue
        for a, b in SUBS:
            for m in re.finditer(re.escape(a), code):
                out.append((i, m.start(), a, b))
    return lines, out

def main():
    per = int(sys.argv[1]); seed = int(sys.argv[2]) if len(sys.argv) > 2 else 1
    R = random.Random(seed)
    outp = os.path.join(V, "selfmut", "mutsweep.jsonl")
    done = set()
    if os.path.exists(outp):
        for l in open(outp):
            try: done.add(json.loads(l)["id"])
            except Exception: pass
    for f, props, rng_ in FILES:
        lines, ss = sites(os.path.join("/repo", f), rng_)
        R.shuffle(ss)
        for (i, col, a, b) in ss[:per]:
            mid = "%s:%d:%d:%s>%s" % (f, i + 1, col, a.strip(), b.strip())
            if mid in done:
                continue
            wt = tempfile.mkdtemp(prefix="msw-", dir="/tmp"); os.rmdir(wt)
            sh("git -C /repo worktree add -q --detach %s HEAD" % wt)
            rec = {"id": mid, "file": f, "line": i + 1, "from": a, "to": b, "text": lines[i].strip()[:120]}
            try:
                ml = list(lines); ml[i] = ml[i][:col] + b + ml[i][col + len(a):]
                open(os.path.join(wt, f), "w").write("\n".join(ml))
                rc, _ = sh("go build ./... && go vet ./" + os.path.dirname(f) + "/ >/dev/null 2>&1; go build ./...", cwd=wt, timeout=300)
                if rc != 0:
                    rec["outcome"] = "does-not-build"
                else:
                    rc, out = sh("go test -vet=off -count=1 -timeout 100s ./...", cwd=wt, timeout=400)
                    if rc != 0:
                        rec["outcome"] = "killed-by-repo-tests"
                    else:
                        res = {}
                        for p in props:
                            t0 = time.time()
                            rc, out = sh("VERIF_REPO=%s VERIF_EVIDENCE_DIR=%s/.ev VERIF_REPLAYS_DIR=%s/.rp ./check %s quick" % (wt, wt, wt, p), cwd=V, timeout=1500)
                            viol = [l for l in out.splitlines() if l.startswith("  class=")]
                            res[p] = {"rc": rc, "first": (viol[0][:200] if viol else out[-160:].replace("\n", " ")), "s": round(time.time() - t0)}
                        rec["checks"] = res
                        rec["outcome"] = "killed-by-check" if any(v["rc"] == 1 for v in res.values()) else ("machinery-trouble" if any(v["rc"] not in (0, 1) for v in res.values()) else "SURVIVED")
            finally:
                sh("git -C /repo worktree remove --force %s" % wt); shutil.rmtree(wt, ignore_errors=True)
            open(outp, "a").write(json.dumps(rec) + "\n")
            print(rec["outcome"], mid, flush=True)
    # summary
    recs = [json.loads(l) for l in open(outp)]
    summ = {}
    for r in recs:
        k = r["file"]; summ.setdefault(k, {}); summ[k][r["outcome"]] = summ[k].get(r["outcome"], 0) + 1
    json.dump(summ, open(os.path.join(V, "selfmut", "mutsweep_summary.json"), "w"), indent=1)
    print(json.dumps(summ, indent=1))

main()
