// instrument generates, for every non-test .go file of the tree under test, a copy with
// a call to verifhook.Yield(site) inserted directly after the opening brace of every
// function body, function literal, for and range body, and with every channel send
// statement rewritten (on the same line) into a try-send loop that reports to the
// simulator when it cannot proceed. Insertions are textual at byte offsets taken from
// the AST and never add a newline, so line numbers are those of the original file.
//
// Output: <out>/src/<rel path>, <out>/overlay.json (for go build -overlay) and
// <out>/sites.json (site number -> file:line kind).
package main

import (
	"encoding/json"
	"flag"
	"fmt"
	"go/ast"
	"go/parser"
	"go/token"
	"os"
	"path/filepath"
	"sort"
	"strings"
)

type edit struct {
	off  int // byte offset in the original
	end  int // == off for pure insertions
	text string
}

type site struct {
	ID   int    `json:"id"`
	File string `json:"file"`
	Line int    `json:"line"`
	Kind string `json:"kind"`
	Func string `json:"func"`
}

func main() {
	repo := flag.String("repo", "/repo", "tree under test")
	out := flag.String("out", "", "output directory")
	hookSrc := flag.String("hook", "/verif/overlay/verifhook/hook.go", "verifhook source")
	modpath := flag.String("module", "github.com/Tom-Johnston/mamba", "module path of the tree")
	flag.Parse()
	if *out == "" {
		fmt.Fprintln(os.Stderr, "instrument: -out required")
		os.Exit(2)
	}
	var files []string
	err := filepath.Walk(*repo, func(p string, info os.FileInfo, err error) error {
		if err != nil {
			return err
		}
		if info.IsDir() {
			b := info.Name()
			if p != *repo && (strings.HasPrefix(b, ".") || strings.HasPrefix(b, "_") || b == "testdata" || b == "vendor" || b == "verifhook") {
				return filepath.SkipDir
			}
			return nil
		}
		if strings.HasSuffix(p, ".go") && !strings.HasSuffix(p, "_test.go") {
			files = append(files, p)
		}
		return nil
	})
	if err != nil {
		fmt.Fprintln(os.Stderr, "instrument:", err)
		os.Exit(2)
	}
	sort.Strings(files)
	overlay := map[string]string{}
	var sites []site
	next := 0
	for _, path := range files {
		src, err := os.ReadFile(path)
		if err != nil {
			fmt.Fprintln(os.Stderr, "instrument:", err)
			os.Exit(2)
		}
		fset := token.NewFileSet()
		f, err := parser.ParseFile(fset, path, src, parser.ParseComments)
		if err != nil {
			fmt.Fprintln(os.Stderr, "instrument: parse:", err)
			os.Exit(2)
		}
		rel, _ := filepath.Rel(*repo, path)
		off := func(p token.Pos) int { return fset.Position(p).Offset }
		var edits []edit
		var funcStack []string
		importsSync := false
		importsAtomic := false
		for _, im := range f.Imports {
			if im.Path.Value == `"sync"` {
				importsSync = true
			}
			if im.Path.Value == `"sync/atomic"` {
				importsAtomic = true
			}
		}
		// hasAtomic: does the statement itself (not nested blocks / function literals) contain a
		// sync/atomic operation?  atomic.XxxInt64(...) or x.Load() / Store / Add / Swap / CompareAndSwap
		hasAtomic := func(st ast.Stmt) bool {
			found := false
			ast.Inspect(st, func(n ast.Node) bool {
				switch x := n.(type) {
				case *ast.BlockStmt, *ast.FuncLit:
					return n == ast.Node(st)
				case *ast.CallExpr:
					if sel, ok := x.Fun.(*ast.SelectorExpr); ok {
						if id, ok := sel.X.(*ast.Ident); ok && id.Name == "atomic" {
							found = true
						}
						switch sel.Sel.Name {
						case "Load", "Store", "CompareAndSwap", "Swap", "Add", "And", "Or":
							found = true
						}
					}
				}
				return !found
			})
			return found
		}
		curFunc := func() string {
			if len(funcStack) == 0 {
				return ""
			}
			return funcStack[len(funcStack)-1]
		}
		addYield := func(lbrace token.Pos, kind string) {
			id := next
			next++
			sites = append(sites, site{ID: id, File: rel, Line: fset.Position(lbrace).Line, Kind: kind, Func: curFunc()})
			o := off(lbrace) + 1
			edits = append(edits, edit{o, o, fmt.Sprintf(" __vh.Yield(%d);", id)})
		}
		poolRewritten := false
		var walk func(n ast.Node)
		walk = func(n ast.Node) {
			ast.Inspect(n, func(n ast.Node) bool {
				switch x := n.(type) {
				case *ast.FuncDecl:
					if x.Body == nil {
						return false
					}
					name := x.Name.Name
					if x.Recv != nil && len(x.Recv.List) > 0 {
						name = string(src[off(x.Recv.List[0].Type.Pos()):off(x.Recv.List[0].Type.End())]) + "." + name
					}
					funcStack = append(funcStack, f.Name.Name+"."+name)
					addYield(x.Body.Lbrace, "func")
					walk(x.Body)
					funcStack = funcStack[:len(funcStack)-1]
					return false
				case *ast.FuncLit:
					addYield(x.Body.Lbrace, "funclit")
				case *ast.ForStmt:
					addYield(x.Body.Lbrace, "for")
				case *ast.RangeStmt:
					addYield(x.Body.Lbrace, "range")
				case *ast.BlockStmt:
					// atomics are synchronisation points: a preemption point before every statement
					// that performs one (so that two atomic operations in consecutive statements can
					// be separated by the scheduler)
					if importsAtomic {
						for _, st := range x.List {
							switch st.(type) {
							case *ast.ExprStmt, *ast.AssignStmt, *ast.IfStmt, *ast.ReturnStmt, *ast.IncDecStmt, *ast.SwitchStmt:
								if hasAtomic(st) {
									id := next
									next++
									sites = append(sites, site{ID: id, File: rel, Line: fset.Position(st.Pos()).Line, Kind: "atomic", Func: curFunc()})
									o := off(st.Pos())
									edits = append(edits, edit{o, o, fmt.Sprintf("__vh.Yield(%d); ", id)})
								}
							}
						}
					}
				case *ast.SelectorExpr:
					// sync.Pool -> the deterministic LIFO pool of the hook package (sync.Pool's choice
					// of item depends on Ps, garbage collections and, in race builds, a random drop)
					if id, ok := x.X.(*ast.Ident); ok && id.Name == "sync" && (x.Sel.Name == "Pool" || x.Sel.Name == "Once" || x.Sel.Name == "WaitGroup" || x.Sel.Name == "Cond" || x.Sel.Name == "NewCond") && importsSync {
						// sync.Once -> a Once whose waiting callers yield instead of blocking for real
						edits = append(edits, edit{off(x.Pos()), off(x.End()), "__vh." + x.Sel.Name})
						poolRewritten = true
						return false
					}
				case *ast.AssignStmt:
					// v, ok := <-c  (outside select): the two-value receive
					if len(x.Lhs) == 2 && len(x.Rhs) == 1 {
						if u, ok := x.Rhs[0].(*ast.UnaryExpr); ok && u.Op == token.ARROW {
							ch := string(src[off(u.X.Pos()):off(u.X.End())])
							if !strings.Contains(ch, "\n") {
								id := next
								next++
								sites = append(sites, site{ID: id, File: rel, Line: fset.Position(u.Pos()).Line, Kind: "recv", Func: curFunc()})
								edits = append(edits, edit{off(u.Pos()), off(u.End()), fmt.Sprintf("__vh.Recv2(%s, %d)", ch, id)})
								for _, l := range x.Lhs {
									walk(l)
								}
								return false
							}
						}
					}
				case *ast.ValueSpec:
					if len(x.Names) == 2 && len(x.Values) == 1 {
						if u, ok := x.Values[0].(*ast.UnaryExpr); ok && u.Op == token.ARROW {
							ch := string(src[off(u.X.Pos()):off(u.X.End())])
							if !strings.Contains(ch, "\n") {
								id := next
								next++
								sites = append(sites, site{ID: id, File: rel, Line: fset.Position(u.Pos()).Line, Kind: "recv", Func: curFunc()})
								edits = append(edits, edit{off(u.Pos()), off(u.End()), fmt.Sprintf("__vh.Recv2(%s, %d)", ch, id)})
								return false
							}
						}
					}
				case *ast.UnaryExpr:
					// <-c anywhere else outside the communication of a select case
					if x.Op == token.ARROW {
						ch := string(src[off(x.X.Pos()):off(x.X.End())])
						if strings.Contains(ch, "\n") {
							return true
						}
						id := next
						next++
						sites = append(sites, site{ID: id, File: rel, Line: fset.Position(x.Pos()).Line, Kind: "recv", Func: curFunc()})
						edits = append(edits, edit{off(x.Pos()), off(x.End()), fmt.Sprintf("__vh.Recv(%s, %d)", ch, id)})
						return false
					}
				case *ast.SelectStmt:
					// a select without default blocks until a case is ready: give it a default clause
					// that hands the baton on and tries again (no wrapper loop, so break/continue in
					// the case bodies keep their meaning)
					hasDefault := false
					for _, cc := range x.Body.List {
						if c, ok := cc.(*ast.CommClause); ok && c.Comm == nil {
							hasDefault = true
						}
					}
					if !hasDefault && len(x.Body.List) > 0 {
						id := next
						next++
						sites = append(sites, site{ID: id, File: rel, Line: fset.Position(x.Pos()).Line, Kind: "select", Func: curFunc()})
						edits = append(edits, edit{off(x.Pos()), off(x.Pos()), fmt.Sprintf("__vhS%d: ", id)})
						o := off(x.Body.Rbrace)
						edits = append(edits, edit{o, o, fmt.Sprintf("; default: __vh.Wait(%d); goto __vhS%d; ", id, id)})
					}
				case *ast.CommClause:
					// a send or receive that is the communication of a select case stays as it
					// is (only its body is instrumented): select already is a non-blocking choice
					for _, st := range x.Body {
						walk(st)
					}
					return false
				case *ast.ExprStmt:
					// x.Lock() / x.RLock() as a statement, in a file that imports "sync": rewritten
					// into a try-lock loop so that a task waiting for a lock held by a parked task
					// hands the baton on instead of blocking for real. (sync.Mutex and
					// sync.RWMutex have TryLock/TryRLock; if x is something else the build fails
					// and the check exits 2.)
					call, ok := x.X.(*ast.CallExpr)
					if !ok || len(call.Args) != 0 || !importsSync {
						return true
					}
					sel, ok := call.Fun.(*ast.SelectorExpr)
					if ok && (sel.Sel.Name == "Unlock" || sel.Sel.Name == "RUnlock") {
						// a preemption point right after every release
						id := next
						next++
						sites = append(sites, site{ID: id, File: rel, Line: fset.Position(x.Pos()).Line, Kind: "unlock", Func: curFunc()})
						o := off(x.End())
						edits = append(edits, edit{o, o, fmt.Sprintf("; __vh.Yield(%d)", id)})
						return false
					}
					if !ok || (sel.Sel.Name != "Lock" && sel.Sel.Name != "RLock") {
						return true
					}
					recv := string(src[off(sel.X.Pos()):off(sel.X.End())])
					if strings.Contains(recv, "\n") {
						return true
					}
					id := next
					next++
					sites = append(sites, site{ID: id, File: rel, Line: fset.Position(x.Pos()).Line, Kind: "lock", Func: curFunc()})
					try := "TryLock"
					if sel.Sel.Name == "RLock" {
						try = "TryRLock"
					}
					txt := fmt.Sprintf("__vh.Yield(%d); for !(%s).%s() { if !__vh.Blocked(%d) { (%s).%s(); break } }", id, recv, try, id, recv, sel.Sel.Name)
					edits = append(edits, edit{off(x.Pos()), off(x.End()), txt})
					return false
				case *ast.SendStmt:
					id := next
					next++
					sites = append(sites, site{ID: id, File: rel, Line: fset.Position(x.Pos()).Line, Kind: "send", Func: curFunc()})
					ch := string(src[off(x.Chan.Pos()):off(x.Chan.End())])
					val := string(src[off(x.Value.Pos()):off(x.Value.End())])
					if strings.Contains(ch, "\n") || strings.Contains(val, "\n") {
						// keep line numbers: do not rewrite multi-line sends (they then block for real;
						// the simulator reports exit 2 if that deadlocks).
						return true
					}
					txt := fmt.Sprintf("{ __vhc, __vhv := %s, %s; for __vhs := false; !__vhs; { select { case __vhc <- __vhv: __vhs = true; default: if !__vh.Blocked(%d) { __vhc <- __vhv; __vhs = true } } } }", ch, val, id)
					constant := false
					switch v := x.Value.(type) {
					case *ast.BasicLit:
						constant = true
					case *ast.Ident:
						constant = v.Name == "nil" || v.Name == "true" || v.Name == "false"
					case *ast.UnaryExpr:
						_, constant = v.X.(*ast.BasicLit)
					}
					if constant {
						// an untyped constant or nil takes its type from the channel: no temporary
						// (evaluating it again on a retry has no effect)
						txt = fmt.Sprintf("{ __vhc := %s; for __vhs := false; !__vhs; { select { case __vhc <- %s: __vhs = true; default: if !__vh.Blocked(%d) { __vhc <- %s; __vhs = true } } } }", ch, val, id, val)
					}
					edits = append(edits, edit{off(x.Pos()), off(x.End()), txt})
					return false
				}
				return true
			})
		}
		walk(f)
		if len(edits) == 0 {
			continue
		}
		if poolRewritten {
			// keep the "sync" import used
			o := len(src)
			edits = append(edits, edit{o, o, "\nvar _ sync.Locker\n"})
		}
		// the import goes on the package line
		pe := off(f.Name.End())
		edits = append(edits, edit{pe, pe, fmt.Sprintf("; import __vh %q", *modpath+"/verifhook")})
		sort.SliceStable(edits, func(i, j int) bool { return edits[i].off < edits[j].off })
		var b strings.Builder
		pos := 0
		for _, e := range edits {
			if e.off < pos {
				fmt.Fprintf(os.Stderr, "instrument: overlapping edits in %s\n", path)
				os.Exit(2)
			}
			b.Write(src[pos:e.off])
			b.WriteString(e.text)
			pos = e.end
		}
		b.Write(src[pos:])
		dst := filepath.Join(*out, "src", rel)
		os.MkdirAll(filepath.Dir(dst), 0o755)
		if err := os.WriteFile(dst, []byte(b.String()), 0o644); err != nil {
			fmt.Fprintln(os.Stderr, "instrument:", err)
			os.Exit(2)
		}
		overlay[path] = dst
	}
	// the virtual hook package
	hookFiles, _ := filepath.Glob(filepath.Join(filepath.Dir(*hookSrc), "*.go"))
	if len(hookFiles) == 0 {
		fmt.Fprintln(os.Stderr, "instrument: no hook sources next to", *hookSrc)
		os.Exit(2)
	}
	for _, hf := range hookFiles {
		hdst := filepath.Join(*out, "src", "verifhook", filepath.Base(hf))
		os.MkdirAll(filepath.Dir(hdst), 0o755)
		hb, err := os.ReadFile(hf)
		if err != nil {
			fmt.Fprintln(os.Stderr, "instrument:", err)
			os.Exit(2)
		}
		os.WriteFile(hdst, hb, 0o644)
		overlay[filepath.Join(*repo, "verifhook", filepath.Base(hf))] = hdst
	}
	ob, _ := json.MarshalIndent(map[string]interface{}{"Replace": overlay}, "", " ")
	os.WriteFile(filepath.Join(*out, "overlay.json"), ob, 0o644)
	sb, _ := json.Marshal(sites)
	os.WriteFile(filepath.Join(*out, "sites.json"), sb, 0o644)
	fmt.Printf("instrument: %d files, %d sites\n", len(overlay)-len(hookFiles), next)
}
