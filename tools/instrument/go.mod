module instrument

go 1.23
