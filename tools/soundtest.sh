#!/bin/bash
# Soundness fixtures: trees on which the property HOLDS although they look suspicious to the
# machinery. Each patch under seeded/_sound/<name>/ is applied to a scratch worktree of /repo;
# (optional arguments: fixture names to run) the repository's suite must pass and the property's check must exit 0 without a VIOLATION line.
export GOFLAGS=-mod=mod GOPROXY=off GOSUMDB=off GOTOOLCHAIN=local
cd "$(dirname "$0")/.."
rc=0
for d in seeded/_sound/*/; do
  name=$(basename "$d")
  [ -f "$d/meta.json" ] || continue
  if [ $# -gt 0 ]; then case " $* " in *" $name "*) ;; *) continue;; esac; fi
  prop=$(python3 -c "import json,sys;print(json.load(open(sys.argv[1]))['property'])" "$d/meta.json")
  wt=$(mktemp -d /tmp/sound-XXXXXX); rmdir "$wt"
  git -C /repo worktree add -q --detach "$wt" HEAD
  if ! (cd "$wt" && (git apply "$OLDPWD/$d/patch.diff" 2>/dev/null || git apply --3way "$OLDPWD/$d/patch.diff")); then echo "$name: patch does not apply"; rc=1
  elif ! (cd "$wt" && go test -vet=off -count=1 ./... >/dev/null 2>&1); then echo "$name: repository suite fails"; rc=1
  else
    for tier in ${TIERS:-quick}; do
      out=$(VERIF_REPO="$wt" VERIF_EVIDENCE_DIR="$wt/.ev" VERIF_REPLAYS_DIR="$wt/.rp" ./check "$prop" "$tier" 2>&1); r=$?
      if [ $r -ne 0 ] || echo "$out" | grep -q '^VIOLATION'; then echo "$name $prop $tier: FALSE ALARM rc=$r $(echo "$out" | grep -A1 '^VIOLATION' | head -2 | cut -c1-200)"; rc=1
      else echo "$name $prop $tier: quiet (rc=0)"; fi
    done
  fi
  git -C /repo worktree remove --force "$wt"; rm -rf "$wt"
done
exit $rc
