#!/bin/bash
# Re-runs tools/seedtest.sh for every seeded change (3 at a time) and prints those not caught.
cd "$(dirname "$0")/.."
ls -d seeded/*/ | sed 's#/$##' | VERIF_WORKERS=${VERIF_WORKERS:-6} xargs -P 3 -I{} sh -c 'tools/seedtest.sh {} ${1:-quick} 2>&1 | tail -1 | cut -c1-160' > /tmp/seedall.log
grep -c "caught=yes" /tmp/seedall.log
grep -v "caught=yes" /tmp/seedall.log
python3 tools/seedreadme.py
