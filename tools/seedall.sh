#!/bin/bash
# Re-runs tools/seedtest.sh for every seeded change (3 at a time, with the tier recorded in
# its result.json) and prints those not caught.
cd "$(dirname "$0")/.."
ls -d seeded/*/ | grep -v "seeded/_" | sed 's#/$##' | VERIF_WORKERS=${VERIF_WORKERS:-6} xargs -P 3 -I{} sh -c 'tier=$(python3 -c "import json,sys;print(json.load(open(sys.argv[1]+\"/result.json\")).get(\"tier\",\"quick\"))" {} 2>/dev/null || echo quick); timeout 3000 tools/seedtest.sh {} $tier 2>&1 | tail -1 | cut -c1-160' > /tmp/seedall.log
grep -c "caught=yes" /tmp/seedall.log
grep -v "caught=yes" /tmp/seedall.log
python3 tools/seedreadme.py
