#!/usr/bin/env python3
"""Regenerates /verif/MANIFEST.json from the table below (only checks whose engine exists are listed)."""
import json, os, subprocess
V = os.path.dirname(os.path.dirname(os.path.abspath(__file__)))

CHECKS = {
 "C20": dict(engine="writer20", cat="fault_enumeration", design="DESIGN.md §4 C20",
   technique="deterministic simulation of the io.Writer with fault injection: every Write position x every failure kind enumerated, plus seeded multi-failure schedules",
   text="tsp.LIB runs against a simulated writer. For each n in the tier's range and each weight family the fault-free output is parsed by an independent TSPLIB parser, and then LIB is re-executed once for every Write call position and every failure kind (transient/permanent x zero/short/full-count-with-error, errors with Temporary()==true, sentinel errors io.EOF / ErrShortWrite / ErrClosedPipe); the oracle is 'a Write failed => non-nil error; none failed => nil error and the bytes parse'. Exhaustive in the fault dimension for the listed configurations up to n = 130 (positions sampled for n >= 255), sampled in (n, weights).",
   note="Trusts: Go's text/tabwriter and fmt (real code, not stubbed); the harness's TSPLIB parser; faults outside the io.Writer contract (short count with nil error) are not injected."),
 "C18": dict(engine="dsu18", cat="exploration", design="DESIGN.md §4 C18",
   technique="seeded operation histories on one long-lived value checked in lock step against a reference partition model, with logical step budgets, tape minimisation and exact replay",
   text="Seeded histories of Union/UnionBuffered/Find/FindBuffered/Sets/SmallestRep/Roots on disjoint.Set (n <= 64, plus enumerated perfectly balanced trees on up to 2^17 elements, buffers of any capacity >= 1, the empty structure) are executed against a naive label-array model; after every operation representatives must induce exactly the model's partition, lookups must not change it, and derived views must describe it. Every call runs under a logical step budget so a parent cycle is a violation, not a hang. Sampling, not proof.",
   note="Tier B (history refinement): no fault or schedule exists in this code; the simulator contributes the seeded history, model, budgets, shrinking and replay. Trusts the label-array model."),
 "C17": dict(engine="sets17", cat="exploration", design="DESIGN.md §4 C17",
   technique="seeded operation histories over a pool of long-lived SortedInts values against a map-based set model (aliasing and spare capacity included), tape minimisation and exact replay",
   text="A pool of SortedInts values with tape-chosen spare capacity is driven through the whole API (constructors, Range, Add, Remove, method Union, the set functions, ints.Sort) by a seeded tape; every result must be strictly increasing and equal the map model, arguments of non-mutating functions must be bit-identical afterwards and every other pool member unchanged. Sampling, not proof.",
   note="Tier B (history refinement). Trusts Go's sort.Ints and map as the model. Inputs the documentation excludes (Range with an infinite set) must panic as documented."),
 "C05": dict(engine="edit05", cat="exploration", design="DESIGN.md §4 C05",
   technique="seeded edit histories on a pool of dense/sparse twin graphs checked in lock step against an adjacency-set model after every operation (sharing between copies shows as drift), tape minimisation and exact replay",
   text="Each logical graph is held as a *DenseGraph, a *SparseGraph and a model; tape-chosen AddVertex/RemoveVertex/AddEdge/RemoveEdge/Copy/InducedSubgraph histories (valid arguments only) are applied to all three and after every operation every live object in the pool is compared with its model on N, M, IsEdge (all pairs), Neighbours, Degrees. Sampling, not proof.",
   note="Tier B (history refinement). n <= 12 (one run in 40: 60-90 vertices), histories <= 60 operations. Trusts the adjacency-set model."),
 "C08": dict(engine="store08", cat="fault_enumeration", design="DESIGN.md §4 C08",
   technique="simulated record store with storage-fault injection (torn writes at every offset, every byte substitution/bit flip on short records, splices, duplication) feeding the decoders under recover and a logical step budget",
   text="Valid graph6/sparse6 records produced by the encoders are damaged the way storage damages them and decoded under recover and a deterministic step budget; each call must end in an error or a well-formed graph on the declared n whose re-encoding decodes to the same graph. Truncations, single-byte substitutions and bit flips are enumerated completely for the corpus records; multi-fault combinations are seeded.",
   note="The declared n is computed by the harness's own header parser; records declaring n > 4096 are skipped (the property's resource bound). Corpus bounded (every labelled graph n <= 4, random graphs to n = 128, long-header records up to declared n = 4096). After every decode the previously returned graph must be unchanged."),
 "C12": dict(engine="dawg12", cat="exploration", design="DESIGN.md §4 C12",
   technique="seeded Add histories with rejected operations (out-of-order / duplicate) against a sorted-set model and an independent minimal-DFA state count, tape minimisation and exact replay",
   text="Word sets shaped to share prefixes and suffixes are added through New, a zero Builder or Initialise, with rejected additions interleaved; every Add's error must match the model, and after Finish NumberOfWords, Lookup of all members and of near-miss probes, and the node count (via the verif-tagged accessor) must match the sorted-set model and the independently computed minimal automaton. Sampling, not proof.",
   note="Tier B (history refinement); rejected operations are the only fault-like events. Uses the verif-tagged accessor dawg/verif_export.go to read the automaton."),
 "C02": dict(engine="canon02", cat="exploration", design="DESIGN.md §4 C02",
   technique="seeded request histories through one reused storage/partition pair with interrupted (early-return) calls as faults, compared with fresh calls and a brute-force automorphism oracle",
   text="One CanonicalStorage/partition pair of tape-chosen capacity serves a seeded history of labelling requests (sizes up and down, interrupted viability calls left mid-search, vertex classes); each result must equal a fresh call, be a permutation, and match brute force (groups up to 60000 elements) (class-preserving where classes are given; plus identical canonical graph under class-respecting relabellings): orbits = orbits of Aut(g), every generator an automorphism, closure size = |Aut(g)|. Sampling, not proof.",
   note="Tier B (history refinement); the interrupted call is the injected fault. n <= 16 for random families, up to 28 for cheap and named symmetric families (showcase histories: one symmetric graph under fresh relabellings); class members listed in any order; brute-force oracle limited to |Aut(g)| <= 60000; a call over the step budget is abandoned without a verdict (counted)."),
 "C03": dict(engine="shard03", cat="exploration", design="DESIGN.md §4 C03",
   technique="multi-party simulation of the m search shards advanced in seeded interleavings; exactly-once/conservation over the joint history against an independent isomorphism-class enumeration",
   text="All configurations (n, m, predicate placement) in the tier's range are run with the m shard iterators advanced in a tape-chosen interleaving; every yielded value must be well formed and the multiset of independent canonical codes must equal the independently generated class set satisfying the predicate. Exhaustive over configurations at small n, sampled beyond.",
   note="Independent IsoOracle (brute-force canonical code) shares no code with mamba; n <= 8 unpruned (9 in thorough), n <= 10 (11 in thorough) for strongly pruned families; n = 12, 13 for sparse families by pairwise isomorphism tests inside invariant buckets plus equal counts for both predicate placements; split moduli up to 257."),
 "C04": dict(engine="ckpt04", cat="fault_enumeration", design="DESIGN.md §4 C04",
   technique="crash/restart simulation: the iterator is abandoned and restored from its checkpoint at every position (enumerated for small n), with chains, forks and legal-but-unusual reader behaviour, compared with the uninterrupted run",
   text="A worker owns a search iterator; crash+restore from the newest checkpoint is injected after every k-th Next (all k for small configurations), plus seeded chains of save/load/advance and forks advanced alternately; the restored iterator must emit exactly the uninterrupted suffix, the original must be undisturbed and the two independent. Readers deliver one byte at a time / short reads / data with EOF.",
   note="Only completed Saves are restored (the property is silent about torn checkpoints). Configurations bounded (n <= 7 enumerated in quick for pruned families, n <= 8 in thorough). Value() right after Save must still be the graph yielded last."),
 "C19": dict(engine="sched19", cat="exploration", design="DESIGN.md §3.2, §4 C19",
   technique="deterministic goroutine scheduler over generated yield points (seeded preemption), Go race detector as happens-before monitor made blind to the scheduler's own synchronisation, solo-result oracle",
   text="The library is rebuilt with a yield at every function entry and loop head; 2-6 tasks (shards, labellers, iterators, Dawg queries, observers, clique producer/consumer...) run as goroutines of which exactly one holds the baton, and a seeded tape decides every preemption. Oracles: each task's result equals its solo result on fresh values, the race detector (which sees no happens-before between tasks) reports nothing, shared values are unchanged. Sampling over schedules, not proof.",
   note="Serialised execution: weak-memory effects not needing a data race are out of reach; yields at function entries, loop heads, lock/unlock, send/receive/select and before sync/atomic statements; sync.Once/WaitGroup/Pool of the tree replaced by yielding, deterministic stand-ins; workers run under GOMAXPROCS 16/1/2/4; blocking that is not rewritten ends in exit 2 (SIMULATOR-LIMIT); race reports limited by the detector's history window (history_size=7)."),
}

NA = {
 "C01": "pure function of one input graph (the relabelling is an input too): no schedule, fault, crash point or operation history enters the statement, so there is nothing for a simulator to decide; a seeded generator + oracle would be property-based testing, not this technique (DESIGN.md §2, §5)",
 "C06": "constructors/generators/decoders are pure functions of their parameters; quantifier is inputs only (DESIGN.md §5)",
 "C07": "encode/decode round trips are pure functions of the graph; no I/O happens inside mamba (strings in, values out) (DESIGN.md §5)",
 "C09": "clique/colouring invariants are pure functions of the graph; the one channel API (AllMaximalCliques) is exercised under C19 where its behaviour depends on a schedule (DESIGN.md §5)",
 "C10": "distance/connectivity/cycle counts are pure functions of the graph (DESIGN.md §5)",
 "C11": "IsPlanar is a pure function of the graph; 'never aborts' quantifies over inputs, not interruptions (DESIGN.md §5)",
 "C13": "Search results are a pure function of (word set, searchers); concurrent searches on a shared Dawg are decided under C19 (DESIGN.md §5)",
 "C14": "GobEncode/GobDecode round trip is a pure function of the word set; gob hands GobDecode a complete byte slice, so no partial-read surface exists in mamba (DESIGN.md §5)",
 "C15": "each iterator's output is a pure function of its constructor arguments (only Next/Value exist, so there is no history to choose) (DESIGN.md §5)",
 "C16": "Coeff*, Rank, Unrank are pure integer functions; termination is a per-input statement (DESIGN.md §5)",
}

def main():
    checks = []
    for pid in sorted(CHECKS):
        c = CHECKS[pid]
        if not os.path.isdir(os.path.join(V, "sim", "cmd", c["engine"])):
            NA[pid] = "check not built yet in this round (engine %s planned, see DESIGN.md §4)" % c["engine"]
            continue
        checks.append({
            "property_id": pid,
            "quick_cmd": "./check %s quick" % pid,
            "thorough_cmd": "./check %s thorough" % pid,
            "evidence_file": "evidence/%s.json" % pid,
            "replay_cmd_template": "./check replay {path}",
            "engine": c["engine"],
            "level_claimed": {"category": c["cat"], "text": c["text"], "design_ref": c["design"]},
            "level_note": c["note"],
            "technique": c["technique"],
        })
    hooks_commits = []
    try:
        out = subprocess.check_output(["git", "-C", "/repo", "log", "--format=%H %s"], text=True)
        for l in out.splitlines():
            h, s = l.split(" ", 1)
            if s.startswith("verif-hook:"):
                hooks_commits.append(h)
    except Exception:
        pass
    m = {
        "version": 1,
        "setup_cmd": "./check setup",
        "hooks": {
            "guard": "verif",
            "enable": "go build -tags verif (only the C12 engine: add-only file dawg/verif_export.go); all other instrumentation (yield points, try-send) is generated at check time from /repo's working tree and applied with go build -overlay, never written into /repo",
            "baseline_off_cmd": "cd /repo && go test -vet=off -count=1 -timeout 25m ./...",
            "source_commits": hooks_commits,
            "add_only": True,
        },
        "engines": [{"name": CHECKS[p]["engine"], "path": "sim/cmd/" + CHECKS[p]["engine"], "serves_properties": [p],
                     "kind_free_text": CHECKS[p]["technique"]} for p in sorted(CHECKS) if os.path.isdir(os.path.join(V, "sim", "cmd", CHECKS[p]["engine"]))],
        "checks": checks,
        "not_applicable": [{"property_id": p, "reason": NA[p]} for p in sorted(NA)],
        "notes": "All checks are deterministic simulations driven by one seeded choice tape (VERIF_SEED); see DESIGN.md. ./check <ID> <tier> rebuilds the engine against /repo's working tree with generated yield points (go build -overlay). Exit 2 = machinery trouble (never a violation).",
    }
    json.dump(m, open(os.path.join(V, "MANIFEST.json"), "w"), indent=1)
    print("MANIFEST.json: %d checks, %d not_applicable" % (len(checks), len(NA)))

main()
