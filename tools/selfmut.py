#!/usr/bin/env python3
"""Sensitivity battery: deliberate breaks of each claimed property, applied to a scratch worktree
(never to /repo). For each: the tree must still build and pass the repository's own tests, and the
property's quick check must report a VIOLATION. Usage: selfmut.py [name-substring ...]"""
import subprocess, sys, os, json, tempfile, shutil, time
ENV = dict(os.environ, GOFLAGS="-mod=mod", GOPROXY="off", GOSUMDB="off", GOTOOLCHAIN="local")
V = os.path.dirname(os.path.dirname(os.path.abspath(__file__)))

M = [
 # (name, property, file, old, new)
 ("C20-header-error-dropped", "C20", "tsp/tsplib.go", '_, err = fmt.Fprintf(w, "DIMENSION: %d\\n", n)\n\tif err != nil {\n\t\treturn err\n\t}', '_, err = fmt.Fprintf(w, "DIMENSION: %d\\n", n)'),
 ("C20-trailer-error-dropped", "C20", "tsp/tsplib.go", '_, err = io.WriteString(w, "EOF\\n")\n\tif err != nil {\n\t\treturn err\n\t}', 'io.WriteString(w, "EOF\\n")'),
 ("C20-weights-swapped", "C20", "tsp/tsplib.go", "weights(i, j))", "weights(j, i))"),
 ("C20-flush-only-if-rows", "C20", "tsp/tsplib.go", "err = tw.Flush()\n\tif err != nil {\n\t\treturn err\n\t}", "if ferr := tw.Flush(); ferr != nil && n > 12 {\n\t\treturn ferr\n\t}"),
 ("C18-union-attaches-element-not-root", "C18", "disjoint/disjoint_set.go", "\tif ds[parentX] < ds[parentY] {\n\t\tds[parentY] = parentX\n\t} else if ds[parentY] < ds[parentX] {\n\t\tds[parentX] = parentY\n\t} else {\n\t\tds[parentX] = parentY\n\t\tds[parentY]--\n\t}\n}\n\n//UnionBuffered", "\tif ds[parentX] < ds[parentY] {\n\t\tds[y] = parentX\n\t} else if ds[parentY] < ds[parentX] {\n\t\tds[parentX] = parentY\n\t} else {\n\t\tds[parentX] = parentY\n\t\tds[parentY]--\n\t}\n}\n\n//UnionBuffered"),
 ("C18-compression-writes-grandparent-loop", "C18", "disjoint/disjoint_set.go", "\t\t\tfor i := 0; i < len(seenNumbers)-2; i++ {\n\t\t\t\tds[seenNumbers[i]] = tmp\n\t\t\t}\n\t\t\treturn tmp\n\t\t}\n\t\tseenNumbers = append(seenNumbers, currentPlace)\n\t}\n}\n\n//FindBuffered", "\t\t\tfor i := 0; i < len(seenNumbers)-2; i++ {\n\t\t\t\tds[seenNumbers[i+1]] = seenNumbers[i]\n\t\t\t}\n\t\t\treturn tmp\n\t\t}\n\t\tseenNumbers = append(seenNumbers, currentPlace)\n\t}\n}\n\n//FindBuffered"),
 ("C17-union-inplace-off-by-one", "C17", "sortints/sorted_ints.go", "copy(dst, a[:i+1])", "copy(dst, a[:i])"),
 ("C17-setminus-aliases-argument", "C17", "sortints/sorted_ints.go", "\tr := make([]int, 0, len(a)-IntersectionSize(a, b))\n", "\tif len(b) == 0 {\n\t\treturn a\n\t}\n\tr := make([]int, 0, len(a)-IntersectionSize(a, b))\n"),
 ("C17-heapsort-siftdown", "C17", "ints/int_sort.go", "if child+1 < hi && data[first+child] < data[first+child+1] {", "if child+2 < hi && data[first+child] < data[first+child+1] {"),
 ("C05-dense-addvertex-no-zeroing", "C05", "graph/graph_dense.go", "\t\tfor i := oldSize; i < newSize; i++ {\n\t\t\tg.Edges[i] = 0\n\t\t}\n", ""),
 ("C05-dense-copy-shares-degrees", "C05", "graph/graph_dense.go", "\tnewDegrees := make([]int, len(g.DegreeSequence))\n\tcopy(newDegrees, g.DegreeSequence)\n", "\tnewDegrees := g.DegreeSequence[:len(g.DegreeSequence):len(g.DegreeSequence)]\n"),
 ("C05-sparse-copy-shallow", "C05", "graph/graph_sparse.go", "\t\ttmpNeighbourhoods[i] = make(sortints.SortedInts, len(g.Neighbourhoods[i]))\n\t\tcopy(tmpNeighbourhoods[i], g.Neighbourhoods[i])\n", "\t\ttmpNeighbourhoods[i] = g.Neighbourhoods[i]\n"),
 ("C12-duplicates-accepted", "C12", "dawg/dawg.go", "bytes.Compare(db.lastWord, b) != -1", "bytes.Compare(db.lastWord, b) == 1"),
 ("C12-final-nodes-not-merged", "C12", "dawg/dawg.go", "\tfor _, u := range register {\n\t\tif areEquivalent(lastChild, u) {", "\tfor _, u := range register {\n\t\tif len(lastChild.links) > 0 && areEquivalent(lastChild, u) {"),
 ("C08-graph6-length-check-off-by-one", "C08", "graph/encoding.go", "if i+int(((n*(n-1))/2)+5)/6 > len(s) {", "if i+int(((n*(n-1))/2)+5)/6 > len(s)+1 {"),
 ("C08-sparse6-vertex-n-accepted", "C08", "graph/encoding.go", "} else if v < int(n) {", "} else if v <= int(n) {"),
 ("C02-reset-forgets-singleton-prefix", "C02", "graph/canonical.go", "\top.singletonPrefixLength = 0\n}", "}"),
 # (C02 'Reset forgets op.age = 0' was in an earlier version of this list: it is an EQUIVALENT mutant - ages are only compared for equality with the current age, a constant offset changes nothing - and was correctly not reported.)
 ("C02-reset-keeps-stale-value", "C02", "graph/canonical.go", "\top.value = op.value[:0]\n\top.age = 0", "\top.age = 0"),
 ("C03-maxsize-too-small", "C03", "graph/search/search_all.go", "maxSize := minDegree + 1", "maxSize := minDegree + 1\n\tif n == 6 && minDegree == 2 {\n\t\tmaxSize = minDegree\n\t}"),
 ("C03-split-at-two-levels", "C03", "graph/search/search_all.go", "if i%iter.m != iter.a && level == iter.splitLevel {", "if i%iter.m != iter.a && (level == iter.splitLevel || (iter.m == 3 && level == iter.splitLevel+1)) {"),
 ("C04-load-drops-edge-count", "C04", "graph/search/search_all.go", "\titer.sg.G.NumberOfEdges = s.G.NumberOfEdges\n", ""),
 ("C04-load-drops-first", "C04", "graph/search/search_all.go", "\titer.first = s.First\n", "\titer.first = s.First && len(s.CurrentPath) > 0\n"),
 ("C19-sort-package-scratch", "C19", "ints/int_sort.go", "func Sort(a []int) {\n\tn := len(a)\n\tquickSort(a, 0, n, maxDepth(n))\n}", "var scratch []int\n\nfunc Sort(a []int) {\n\tn := len(a)\n\tif cap(scratch) < n {\n\t\tscratch = make([]int, n)\n\t}\n\ts := scratch[:n]\n\tcopy(s, a)\n\tquickSort(s, 0, n, maxDepth(n))\n\tcopy(a, s)\n}"),
 ("C19-dawg-lookup-counts-hits", "C19", "dawg/dawg.go", "\tif dawg.final {\n\t\treturn index, true\n\t}\n\treturn 0, false\n}", "\tif dawg.final {\n\t\tt.id += 0\n\t\tlookups++\n\t\treturn index, true\n\t}\n\treturn 0, false\n}\n\nvar lookups int"),
 ("C19-intersection-scratch-in-spare-capacity", "C19", "sortints/sorted_ints.go", "func Intersection(a, b SortedInts) SortedInts {\n", "func Intersection(a, b SortedInts) SortedInts {\n\tif cap(a) > len(a) {\n\t\tt := a[:len(a)+1]\n\t\told := t[len(a)]\n\t\tt[len(a)] = len(b)\n\t\tdefer func() { t[len(a)] = old }()\n\t}\n"),
 ("C17-range-overflow-returns", "C17", "sortints/sorted_ints.go", "\ttmp := make([]int, (dist-1)/size+1)\n", "\t_ = size\n\ttmp := make([]int, (int(dist)+step-1)/step)\n"),
 ("C02-classes-not-sorted-on-reset", "C02", "graph/canonical.go", "\t\t\tints.Sort(op.order[index-len(vertexClasses[i]) : index])\n", ""),
]

def sh(cmd, cwd=None, timeout=3000):
    p = subprocess.run(cmd, shell=True, cwd=cwd, env=ENV, stdout=subprocess.PIPE, stderr=subprocess.STDOUT, text=True, timeout=timeout)
    return p.returncode, p.stdout

def main():
    sel = sys.argv[1:]
    results = []
    for name, prop, f, old, new in M:
        if sel and not any(s in name for s in sel):
            continue
        wt = tempfile.mkdtemp(prefix="selfmut-", dir="/tmp"); os.rmdir(wt)
        sh("git -C /repo worktree add -q --detach %s HEAD" % wt)
        try:
            p = os.path.join(wt, f)
            s = open(p).read()
            if s.count(old) != 1:
                print("%-45s SKIP: pattern occurs %d times" % (name, s.count(old))); results.append((name, "skip")); continue
            open(p, "w").write(s.replace(old, new))
            rc, out = sh("go build ./...", cwd=wt)
            if rc != 0:
                print("%-45s SKIP: does not build\n%s" % (name, out[-400:])); results.append((name, "nobuild")); continue
            rc, out = sh("go test -vet=off -count=1 ./...", cwd=wt)
            suite = "pass" if rc == 0 else "FAIL"
            t0 = time.time()
            rc, out = sh("VERIF_REPO=%s VERIF_EVIDENCE_DIR=%s/.evidence VERIF_REPLAYS_DIR=%s/.replays ./check %s quick" % (wt, wt, wt, prop), cwd=V)
            viol = [l for l in out.splitlines() if l.startswith("VIOLATION")]
            detail = [l for l in out.splitlines() if l.startswith("  class=")]
            caught = rc == 1 and viol
            print("%-45s suite=%s caught=%s rc=%d %.0fs %s" % (name, suite, "YES" if caught else "NO", rc, time.time()-t0, (detail[0][:230] if detail else out[-200:].replace("\n"," "))))
            results.append((name, suite, bool(caught)))
        finally:
            sh("git -C /repo worktree remove --force %s" % wt); shutil.rmtree(wt, ignore_errors=True)
    # replays produced by these runs are not kept
    json.dump(results, open(os.path.join(V, "selfmut", "last_run.json"), "w"), indent=1)

main()
